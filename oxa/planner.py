"""Planner vocabulary shared by the admission-family rules (C01, C02, C03, C05, C15..C18):
container pushes, node literals, link writes, motion-checker calls, validity / goal queries."""
import re

from .core import (IS_VALID, IS_SATISFIED, VEC_PUSH, VEC_CLEAR, VEC_LEN, DISTANCE, INTERPOLATE, user_call)
from .engine import walk, strip_clone, fmt_terms, T


def node_vec_ty(planner, ty):
    """is `ty` (a local's type string) a (reference to a) Vec / slice of one of the planner's node structs?"""
    for c in planner['containers'].values():
        n = re.escape(c['node'])
        if re.search(r'(std::vec::Vec<|\[)' + n + r'<', ty):
            return c
    return None


def planner_bodies(planner):
    return planner['methods'] + planner['closures']


def call_true_edges(fn, block):
    """(true_edges, false_edges) of the boolean result of the call terminating `block`"""
    site = (fn.path, block)

    def pred(n):
        return n[0] == 'call' and n[3] == site
    te, fe, _sb = fn.bool_edges(pred)
    return te, fe


def pushes(ctx, planner):
    """every Vec::push on a node container in the planner's code"""
    out = []
    for b in planner_bodies(planner):
        fn = ctx.fn(b)
        for bi, t in b.calls():
            if t['func'].get('path') != VEC_PUSH:
                continue
            a0 = t['args'][0]
            pl = a0.get('move') or a0.get('copy')
            if pl is None:
                continue
            ty = b.local_ty(pl['l'])
            c = node_vec_ty(planner, ty)
            if c is None:
                continue
            cont = fn.place_terms(pl, (bi, fn.nstmts(bi)), mut_kills=False)
            node = fn.arg_terms(t, 1, bi)
            out.append({'body': b, 'fn': fn, 'block': bi, 'term': t, 'cont': cont, 'node': node, 'cinfo': c,
                        'in_setup': b.name == 'setup'})
    return out


def node_field(node_terms, name):
    """terms of field `name` across all node literals in node_terms; None if some node is not a literal"""
    out = set()
    for n in node_terms:
        if n[0] != 'agg':
            return None
        hit = [t for (f, t) in n[3] if f == name]
        if not hit:
            return None
        out |= hit[0]
    return frozenset(out)


def is_none(ts):
    return bool(ts) and all(n[0] == 'agg' and n[2] == 'None' for n in ts)


def is_some(ts):
    return bool(ts) and all(n[0] == 'agg' and n[2] == 'Some' for n in ts)


def motion_calls(ctx, planner):
    """call sites of motion checkers inside the planner: from/to argument terms and guard edges"""
    mcs = {m.path: m for m in ctx.motion_checkers()}
    out = []
    for b in planner_bodies(planner):
        fn = ctx.fn(b)
        for bi, t in b.calls():
            p = t['func'].get('path')
            if p not in mcs:
                continue
            m = mcs[p]
            sidx = [i - 1 for i in range(1, m.arg_count + 1) if m.local_ty(i) in ('&S', "&'_ S")]
            if len(sidx) < 2:
                continue
            frm = fn.arg_terms(t, sidx[0], bi)
            to = fn.arg_terms(t, sidx[1], bi)
            te, fe = call_true_edges(fn, bi)
            out.append({'body': b, 'fn': fn, 'block': bi, 'term': t, 'from': frm, 'to': to, 'true_edges': te,
                        'false_edges': fe, 'checker': m})
    return out


def validity_queries(ctx, planner):
    out = []
    for b in planner_bodies(planner):
        fn = ctx.fn(b)
        for bi, t in b.calls():
            if t['func'].get('path') != IS_VALID:
                continue
            st = fn.arg_terms(t, 1, bi)
            te, fe = call_true_edges(fn, bi)
            out.append({'body': b, 'fn': fn, 'block': bi, 'term': t, 'state': st, 'true_edges': te,
                        'false_edges': fe})
    return out


def goal_queries(ctx, planner):
    out = []
    for b in planner_bodies(planner):
        fn = ctx.fn(b)
        for bi, t in b.calls():
            if t['func'].get('path') != IS_SATISFIED:
                continue
            st = fn.arg_terms(t, 1, bi)
            te, fe = call_true_edges(fn, bi)
            out.append({'body': b, 'fn': fn, 'block': bi, 'term': t, 'state': st, 'true_edges': te,
                        'false_edges': fe})
    return out


def same_value(a, b):
    """two term sets denote the same value (clone-transparent); both non-empty"""
    a, b = strip_clone(a), strip_clone(b)
    return bool(a) and a == b


def guarded(fn, block, edges):
    return fn.guarded_by(block, edges)


def is_start_origin(ts):
    """<problem_def>.start_states[..] (of the planner's own problem_def field or a parameter)"""
    ts = strip_clone(ts)
    if not ts:
        return False
    for n in ts:
        if n[0] != 'index':
            return False
        for m in n[1]:
            if not (m[0] == 'field' and m[2] == 'start_states'):
                return False
    return True


def container_state(ts, planner=None):
    """term set is <container>[i].state for a node container; returns list of (container terms, index terms)"""
    ts = strip_clone(ts)
    out = []
    if not ts:
        return None
    for n in ts:
        if n[0] != 'field':
            return None
        for m in n[1]:
            if m[0] == 'index':
                out.append((m[1], m[2]))
            elif m[0] == 'unwrap' or m[0] == 'field':
                # iterator element of a container: unwrap(next(iter(container)))[.1]
                out.append((T(m), None))
            else:
                return None
    return out


# ---------------------------------------------------------------------------------------------
# index lists, node-index resolution, links

def subst(ts, old, new):
    """replace every occurrence of the term set `old` (as a child set) inside ts by `new`"""
    if ts == old:
        return new
    out = set()
    for n in ts:
        out.add(_subst_node(n, old, new))
    return frozenset(out)


def _subst_node(n, old, new):
    parts = [n[0]]
    for c in n[1:]:
        if isinstance(c, frozenset):
            parts.append(subst(c, old, new))
        elif isinstance(c, tuple):
            sub = []
            for cc in c:
                if isinstance(cc, frozenset):
                    sub.append(subst(cc, old, new))
                elif isinstance(cc, tuple) and len(cc) == 2 and isinstance(cc[1], frozenset):
                    sub.append((cc[0], subst(cc[1], old, new)))
                else:
                    sub.append(cc)
            parts.append(tuple(sub))
        else:
            parts.append(c)
    return tuple(parts)


_CTX = [None]


def set_ctx(ctx):
    _CTX[0] = ctx


ELEMENT_PICKERS = ('std::iter::Iterator::next', 'std::iter::Iterator::min_by', 'std::iter::Iterator::max_by',
                   'std::iter::Iterator::min_by_key', 'std::iter::Iterator::max_by_key', 'std::iter::Iterator::min',
                   'std::iter::Iterator::max', 'std::iter::Iterator::last', 'std::iter::Iterator::find',
                   'std::iter::Iterator::nth', 'std::iter::DoubleEndedIterator::next_back',
                   'core::slice::<impl [T]>::first', 'core::slice::<impl [T]>::last')
ITER_ADAPTORS = ('core::slice::<impl [T]>::iter', 'std::iter::Iterator::copied', 'std::iter::Iterator::cloned',
                 'std::collections::VecDeque::<T, A>::iter', 'std::iter::Iterator::filter', 'std::iter::Iterator::rev',
                 'std::iter::Iterator::peekable', 'std::iter::Iterator::by_ref')


def _strip_adaptors(it):
    changed = True
    while changed and len(it) == 1:
        changed = False
        q = next(iter(it))
        if q[0] == 'call' and q[1] in ITER_ADAPTORS and q[2]:
            it = q[2][0]
            changed = True
    return it


def _closure_component_is_param(closure_path, k):
    """does the closure return a tuple whose k-th component is its own argument (the iterated element)?"""
    ctx = _CTX[0]
    if ctx is None:
        return False
    for crate in (ctx.core, ctx.py, ctx.js):
        if crate is None:
            continue
        b = crate.body(closure_path)
        if b is None:
            continue
        fn = ctx.fn(b)
        rt = set()
        for rb in fn.return_blocks():
            rt |= fn.local_terms(0, (rb, fn.nstmts(rb)))
        ok = bool(rt)
        for n in rt:
            if n[0] != 'tuple' or k >= len(n[1]):
                return False
            comp = strip_clone(n[1][k])
            if not comp or not all(c[0] == 'param' and c[1] == 2 for c in comp):
                ok = False
        return ok
    return False


def iter_source(idx_terms, pickers_only_next=False):
    """the collection an index / element is drawn from:
       idx == unwrap(PICK(IT))            PICK in next / min_by / max_by / last / find ...
       idx == unwrap(PICK(map(IT, |e| (.., e, ..)))).k   when the closure returns the element as component k
    (iterator adaptors that do not change the elements are looked through); returns IT's terms or None"""
    if len(idx_terms) != 1:
        return None
    n = next(iter(idx_terms))
    comp = None
    if n[0] == 'field' and n[2].isdigit() and len(n[1]) == 1 and next(iter(n[1]))[0] == 'unwrap':
        comp = int(n[2])
        n = next(iter(n[1]))
    if n[0] != 'unwrap' or len(n[1]) != 1:
        return None
    m = next(iter(n[1]))
    if not (m[0] == 'call' and m[1] in ELEMENT_PICKERS and m[2]):
        return None
    if pickers_only_next and m[1] != 'std::iter::Iterator::next':
        return None
    it = _strip_adaptors(m[2][0])
    if comp is not None:
        # only through a map whose closure passes the element through as that component
        if len(it) != 1:
            return None
        q = next(iter(it))
        if not (q[0] == 'call' and q[1] == 'std::iter::Iterator::map' and len(q[2]) == 2):
            return None
        clos = [c for c in q[2][1] if c[0] == 'closure']
        if len(clos) != len(q[2][1]) or not clos or not all(_closure_component_is_param(c[1], comp) for c in clos):
            return None
        return _strip_adaptors(q[2][0])
    return it


LIST_NEW = ('std::vec::Vec::<T>::new', 'std::vec::Vec::<T>::with_capacity', 'std::collections::VecDeque::<T>::new')
LIST_PUSH = (VEC_PUSH, 'std::collections::VecDeque::<T, A>::push_back', 'std::collections::VecDeque::<T, A>::push_front')


def list_creations(ts):
    """creation sites (call nodes of Vec::new & co) mentioned at the top of a list's term set"""
    out = set()
    for n in ts:
        if n[0] == 'call' and n[1] in LIST_NEW:
            out.add(n)
        elif n[0] == 'out' and n[1] in LIST_PUSH:
            out |= list_creations(n[3][0])
        elif n[0] == 'clone':
            out |= list_creations(n[1])
    return out


def list_pushes(fn, creations):
    """all pushes into the local lists created at the given creation nodes: [(block, value terms, terminator)]"""
    out = []
    for bi, t in fn.b.calls():
        if t['func'].get('path') not in LIST_PUSH:
            continue
        a0 = t['args'][0]
        pl = a0.get('move') or a0.get('copy')
        if pl is None:
            continue
        idt = fn.place_terms(pl, (bi, fn.nstmts(bi)), mut_kills=False)
        if idt and all(n in creations for n in idt):
            out.append((bi, fn.arg_terms(t, 1, bi), t))
    return out


def pushed_node_for_index(ctx, planner, fn, cont, idx):
    """if idx denotes the index of a node pushed in this function (len(cont) read just before the push, or
    len(cont)-1 read just after it) return that push record, else None"""
    plist = [pu for pu in pushes(ctx, planner) if pu['fn'] is fn and pu['cont'] == cont]
    if len(idx) != 1:
        return None
    n = next(iter(idx))
    minus1 = False
    if n[0] == 'field' and n[2] == '0' and len(n[1]) == 1:
        m = next(iter(n[1]))
        if m[0] == 'binop' and m[1] in ('SubWithOverflow', 'Sub', 'SubUnchecked') and len(m[3]) == 1 and \
                next(iter(m[3])) == ('const', '1'):
            n = next(iter(m[2])) if len(m[2]) == 1 else n
            minus1 = True
    elif n[0] == 'binop' and n[1] in ('Sub', 'SubUnchecked') and len(n[3]) == 1 and next(iter(n[3])) == ('const', '1'):
        n = next(iter(n[2])) if len(n[2]) == 1 else n
        minus1 = True
    if not (n[0] == 'call' and n[1] == VEC_LEN and n[2] and n[2][0] == cont):
        return None
    site = n[3][1]
    lp = (site, fn.nstmts(site))
    cands = []
    for pu in plist:
        pp = (pu['block'], fn.nstmts(pu['block']))
        others = [o for o in plist if o is not pu]
        if not minus1:
            # len read, then this push, no other push to the container in between
            fwd, back = fn.points_between(lp, pp)
            if pp in fwd and not any(fn.executes_between((o['block'], fn.nstmts(o['block'])), lp, pp) for o in others):
                cands.append(pu)
        else:
            fwd, back = fn.points_between(pp, lp)
            if lp in fwd and not any(fn.executes_between((o['block'], fn.nstmts(o['block'])), pp, lp) for o in others):
                cands.append(pu)
    return cands[0] if len(cands) == 1 else None


PAIR_PRESERVING = ('std::iter::Iterator::skip', 'std::iter::Iterator::take', 'std::iter::Iterator::filter',
                   'std::iter::Iterator::rev', 'std::iter::Iterator::peekable', 'std::iter::Iterator::by_ref',
                   'std::iter::Iterator::skip_while', 'std::iter::Iterator::take_while', 'std::iter::Iterator::step_by')
PLAIN_ITER = ('core::slice::<impl [T]>::iter', 'core::slice::<impl [T]>::iter_mut', 'std::collections::VecDeque::<T, A>::iter')


def enumerate_base(elem_terms):
    """elem_terms = {unwrap(next(A*(enumerate(iter(C)))))} with A* adaptors that keep (index, element) pairs intact:
    returns the terms of the collection C (then element.1 is C[element.0]), else None"""
    if len(elem_terms) != 1:
        return None
    n = next(iter(elem_terms))
    if n[0] != 'unwrap' or len(n[1]) != 1:
        return None
    m = next(iter(n[1]))
    if not (m[0] == 'call' and m[1] == 'std::iter::Iterator::next' and m[2]):
        return None
    it = m[2][0]
    for _ in range(6):
        if len(it) != 1:
            return None
        q = next(iter(it))
        if q[0] == 'call' and q[1] in PAIR_PRESERVING and q[2]:
            it = q[2][0]
            continue
        break
    if len(it) != 1:
        return None
    q = next(iter(it))
    if not (q[0] == 'call' and q[1] == 'std::iter::Iterator::enumerate' and q[2]):
        return None
    base = q[2][0]
    if len(base) == 1:
        r = next(iter(base))
        if r[0] == 'call' and r[1] in PLAIN_ITER and r[2]:
            return r[2][0]
    return None


def dealias_elements(ts):
    """rewrite `E.1` (the element of `for (i, x) in C.iter().enumerate()`) to the equivalent `C[E.0]`, recursively"""
    def rw(n):
        if not isinstance(n, tuple) or not n:
            return n
        if n[0] == 'field' and n[2] == '1' and isinstance(n[1], frozenset):
            c = enumerate_base(n[1])
            if c is not None:
                return ('index', rwset(c), frozenset([('field', n[1], '0')]))
        def rwx(x):
            if isinstance(x, frozenset):
                return rwset(x)
            if isinstance(x, tuple) and x and n[0] != 'closure_path':
                # argument tuples (T, T, ..), aggregate field lists ((name, T), ..) and call sites (path, block)
                if all(isinstance(y, frozenset) for y in x):
                    return tuple(rwset(y) for y in x)
                if all(isinstance(y, tuple) and len(y) == 2 and isinstance(y[1], frozenset) for y in x):
                    return tuple((y[0], rwset(y[1])) for y in x)
            return x
        return tuple(rwx(x) for x in n)

    def rwset(s):
        return frozenset(rw(n) for n in s)
    return rwset(ts)


def norm_state(ctx, planner, fn, ts):
    """clone-transparent state terms in which <cont>[idx].state with idx the index of a node pushed in this
    function is replaced by that node's state terms; elements of an enumerate() loop are written as indexed reads"""
    ts = dealias_elements(strip_clone(ts))
    out = set()
    sfields = {c['state_field'] for c in planner['containers'].values()}
    for n in ts:
        rep = None
        if n[0] == 'field' and n[2] in sfields and len(n[1]) == 1:
            m = next(iter(n[1]))
            if m[0] == 'index':
                pu = pushed_node_for_index(ctx, planner, fn, m[1], m[2])
                if pu is not None:
                    st = node_field(pu['node'], pu['cinfo']['state_field'])
                    if st is not None:
                        rep = strip_clone(st)
        if rep is not None:
            out |= dealias_elements(rep)
        else:
            out.add(n)
    return frozenset(out)


def node_state_term(cont, idx, state_field):
    return T(('field', T(('index', cont, idx)), state_field))


def stores_to_node_field(ctx, planner):
    """assignments  (*X).<field> = V  where X = index_mut(container, J):  [(fn, body, block, stmt idx, cont, J, field, V terms, stmt)]"""
    out = []
    link_fields = set()
    for c in planner['containers'].values():
        link_fields |= set(c['links']) | {c['state_field']}
    for b in planner_bodies(planner):
        fn = ctx.fn(b)
        for bi, blk in enumerate(b.blocks):
            if blk['cleanup']:
                continue
            for si, st in enumerate(blk['stmts']):
                if st['k'] != 'assign':
                    continue
                pl = st['place']
                names = [e.get('name') for e in pl['p'] if isinstance(e, dict) and 'f' in e]
                if not names or names[-1] not in link_fields or not any(e == 'deref' for e in pl['p']):
                    continue
                # base pointer must denote a node of a container
                base = {'l': pl['l'], 'p': []}
                bt = fn.place_terms(base, (bi, si), mut_kills=False)
                # also allow (*self).tree[..] style (not produced by rustc for Vec) -> only index_mut results
                ok = bool(bt) and all(n[0] == 'index' for n in bt)
                if not ok:
                    # could be a node local's field (new_node.edges = ...) : skip, handled via literals
                    continue
                for n in bt:
                    out.append({'fn': fn, 'body': b, 'block': bi, 'idx': si, 'cont': n[1], 'J': n[2], 'field': names[-1],
                                'value': fn.rvalue_terms(st['rv'], (bi, si)), 'stmt': st})
    return out


def find_literals(fn, op, point, want, depth=0):
    """follow the reaching definitions of operand `op` back to aggregate statements accepted by
    want(rv) -> bool; returns [(block, idx, stmt)] and a flag telling whether some definition was not a literal"""
    out = []
    other = False
    if 'const' in op or depth > 10:
        return out, True
    pl = op.get('move') or op.get('copy')
    if pl is None or pl['p']:
        return out, True
    evs, entry = fn.reaching(pl['l'], point, (), True, whole_only=True)
    if entry or not evs:
        other = True
    for e in evs:
        if e.kind == 'assign' and e.data['k'] == 'assign':
            rv = e.data['rv']
            if rv['k'] == 'agg' and want(rv):
                out.append((e.block, e.idx, e.data))
                continue
            if rv['k'] == 'use' and not e.path:
                o2, oth2 = find_literals(fn, rv['op'], (e.block, e.idx), want, depth + 1)
                out.extend(o2)
                other = other or oth2
                continue
        other = True
    return out, other


def _field_operand(stmt, name):
    rv = stmt['rv']
    names = rv.get('field_names', [])
    for i, f in enumerate(rv['fields']):
        if i < len(names) and names[i] == name:
            return f
    return None


def collect_links(ctx, planner):
    """every place where an edge of the search structure is created.  Each record:
       kind, fn, body, block (where the link becomes effective), a (state terms of one end point),
       cont (container terms of the other end), defs: [(def block, index terms)] of the other end's index"""
    links = []
    problems = []
    conts = planner['containers']
    link_names = set()
    for c in conts.values():
        link_names |= set(c['links'])
    parent_fields = {l for l in link_names if 'parent' in l}
    list_fields = {l for l in link_names if l not in parent_fields}
    # A: node literals pushed with a parent
    for pu in pushes(ctx, planner):
        fn, b, bi = pu['fn'], pu['body'], pu['block']
        t = pu['term']
        lits, other = find_literals(fn, t['args'][1], (bi, fn.nstmts(bi)),
                                    lambda rv: rv.get('adt') == pu['cinfo']['node'])
        if other or not lits:
            problems.append((b, bi, 'pushed node is not a struct literal'))
            continue
        for (lb, li, lst) in lits:
            st_terms = fn.op_terms(_field_operand(lst, pu['cinfo']['state_field']), (lb, li))
            for pf in parent_fields:
                fop = _field_operand(lst, pf)
                if fop is None:
                    continue
                somes, oth = find_literals(fn, fop, (lb, li), lambda rv: rv.get('variant_name') in ('Some', 'None'))
                if oth:
                    problems.append((b, bi, 'parent link of a pushed node is not a Some(..)/None literal'))
                for (sb, si, sst) in somes:
                    if sst['rv']['variant_name'] == 'None':
                        continue
                    defs = [(db, tt) for (db, _di, tt) in fn.split_defs(sst['rv']['fields'][0], (sb, si))]
                    links.append({'kind': 'push-parent', 'fn': fn, 'body': b, 'block': bi, 'a': st_terms,
                                  'cont': pu['cont'], 'defs': defs, 'cinfo': pu['cinfo']})
    # B: stores into an existing node's parent field
    for stw in stores_to_node_field(ctx, planner):
        if stw['field'] not in parent_fields:
            continue
        fn, b = stw['fn'], stw['body']
        cinfo = [c for c in conts.values() if stw['field'] in c['links']][0]
        rv = stw['stmt']['rv']
        op = rv['op'] if rv['k'] == 'use' else None
        somes = []
        if rv['k'] == 'agg' and rv.get('variant_name') == 'Some':
            somes = [(stw['block'], stw['idx'], stw['stmt'])]
        elif op is not None:
            somes, oth = find_literals(fn, op, (stw['block'], stw['idx']), lambda r: r.get('variant_name') in ('Some', 'None'))
            if oth:
                problems.append((b, stw['block'], 'value stored into a parent link is not a Some(..)/None literal'))
        for (sb, si, sst) in somes:
            if sst['rv']['variant_name'] == 'None':
                problems.append((b, stw['block'], 'an existing node is detached (parent set to None)'))
                continue
            defs = [(db, tt) for (db, _di, tt) in fn.split_defs(sst['rv']['fields'][0], (sb, si))]
            links.append({'kind': 'rewire', 'fn': fn, 'body': b, 'block': stw['block'],
                          'a': node_state_term(stw['cont'], stw['J'], cinfo['state_field']),
                          'cont': stw['cont'], 'defs': defs, 'cinfo': cinfo, 'J': stw['J']})
    # C: indices pushed into a node's adjacency list
    for b in planner_bodies(planner):
        fn = ctx.fn(b)
        for bi, t in b.calls():
            if t['func'].get('path') not in LIST_PUSH:
                continue
            a0 = t['args'][0]
            pl = a0.get('move') or a0.get('copy')
            if pl is None:
                continue
            root = fn.borrow_root(pl['l'])
            recv = fn.place_terms(pl, (bi, fn.nstmts(bi)), mut_kills=False)
            hit = None
            # (i) field of a node local:  &mut new_node.edges
            if root is not None and root[1] and root[1][-1] in list_fields:
                nty = b.local_ty(root[0])
                for c in conts.values():
                    if nty.startswith(c['node'] + '<'):
                        hit = ('local', root[0], c)
            # (ii) field of a container element:  &mut (*index_mut(C, i)).edges
            if hit is None and recv and all(n[0] == 'field' and n[2] in list_fields for n in recv):
                inner = set()
                for n in recv:
                    inner |= n[1]
                if inner and all(m[0] == 'index' for m in inner):
                    hit = ('elem', frozenset(inner), [c for c in conts.values() if any(n[2] in c['links'] for n in recv)][0])
            if hit is None:
                continue
            vdefs = [(db, tt) for (db, _di, tt) in fn.split_defs(t['args'][1], (bi, fn.nstmts(bi)))]
            if hit[0] == 'local':
                c = hit[2]
                a = fn.place_terms({'l': hit[1], 'p': [{'f': 0, 'name': c['state_field'], 'ty': 'S'}]}, (bi, fn.nstmts(bi)))
                # the container this node type lives in
                cont_names = [k for k, v in conts.items() if v is c]
                cont = T(('field', T(('param', 1, 'self')), cont_names[0]))
                links.append({'kind': 'edge-new', 'fn': fn, 'body': b, 'block': bi, 'a': a, 'cont': cont,
                              'defs': vdefs, 'cinfo': c, 'node_local': hit[1]})
            else:
                c = hit[2]
                for m in hit[1]:
                    links.append({'kind': 'edge-elem', 'fn': fn, 'body': b, 'block': bi,
                                  'a': node_state_term(m[1], m[2], c['state_field']), 'cont': m[1], 'defs': vdefs,
                                  'cinfo': c, 'J': m[2]})
    # D: a node literal pushed with a non-empty adjacency list: every element of the list is a link whose guard is the
    #    guard of the push that put it into the list (e.g. `edges: neighbours.clone()`)
    seen = {(L['fn'].path, L['block']) for L in links}
    for pu in pushes(ctx, planner):
        fn, b, bi = pu['fn'], pu['body'], pu['block']
        t = pu['term']
        lits, other = find_literals(fn, t['args'][1], (bi, fn.nstmts(bi)),
                                    lambda rv: rv.get('adt') == pu['cinfo']['node'])
        if other or not lits:
            continue
        for (lb, li, lst) in lits:
            st_terms = fn.op_terms(_field_operand(lst, pu['cinfo']['state_field']), (lb, li))
            for lf in list_fields:
                if not pu['cinfo'].get('link_tys', {}).get(lf, '').startswith('std::vec::Vec<'):
                    continue
                fop = _field_operand(lst, lf)
                if fop is None:
                    continue
                raw = fn.op_terms(fop, (lb, li))
                cloned = any(n[0] == 'clone' for n in raw)
                ts = strip_clone(raw)
                cr = list_creations(ts)
                if not cr or not all(n in cr or n[0] == 'out' for n in ts):
                    problems.append((b, bi, 'the adjacency list of a pushed node is initialised with %s (not a list built in this function)' %
                                     fmt_terms(ts)[:60]))
                    continue
                cblocks = frozenset(n[3][1] for n in cr if n[0] == 'call' and n[3][0] == fn.path)
                after = fn.reachable_multi([s for s in fn.succs(lb)], stop=cblocks) if fn.succs(lb) else set()
                for (pb, _x, pt) in list_pushes(fn, cr):
                    if cloned and pb in after and pb != lb:
                        problems.append((b, pb, 'the list copied into a pushed node\'s adjacency list is extended after the copy was taken'))
                    if (fn.path, pb) in seen:
                        continue
                    seen.add((fn.path, pb))
                    vdefs = [(db, tt) for (db, _di, tt) in fn.split_defs(pt['args'][1], (pb, fn.nstmts(pb)))]
                    links.append({'kind': 'edge-new', 'fn': fn, 'body': b, 'block': pb, 'a': st_terms, 'cont': pu['cont'],
                                  'defs': vdefs, 'cinfo': pu['cinfo'], 'node_local': None, 'via_list': True, 'push_block': bi})
    return links, problems


OPT_INSERT = ('std::option::Option::<T>::insert', 'std::option::Option::<T>::replace')
OPT_COND_INSERT = ('std::option::Option::<T>::get_or_insert', 'std::option::Option::<T>::get_or_insert_with',
                   'std::option::Option::<T>::get_or_insert_default')


def install_sites(fn, fname):
    """sites that store into the Option field self.<fname>:
    list of dict(block, idx, kind = 'store' | 'conditional', value = terms of the stored payload or None)
      store        self.f = Some(v)  |  self.f = <expr>  |  self.f.insert(v)  |  self.f.replace(v)
      conditional  self.f.get_or_insert(v) / get_or_insert_with(..): stores only when the field is still None"""
    b = fn.b
    out = []
    for bi, blk in enumerate(b.blocks):
        if blk['cleanup']:
            continue
        for si, st in enumerate(blk['stmts']):
            if st['k'] != 'assign':
                continue
            pl = st['place']
            names = [e.get('name') for e in pl['p'] if isinstance(e, dict) and 'f' in e]
            if pl['l'] == 1 and names == [fname] and any(e == 'deref' for e in pl['p']):
                v = fn.rvalue_terms(st['rv'], (bi, si))
                pay = set()
                for n in v:
                    if n[0] == 'agg' and n[2] == 'Some' and n[3]:
                        pay |= set(n[3][0][1])
                    else:
                        pay = None
                        break
                out.append({'block': bi, 'idx': si, 'kind': 'store', 'value': frozenset(pay) if pay is not None else None,
                            'raw': v})
        t = blk['term']
        if t['k'] == 'call' and t['func'].get('path') in OPT_INSERT + OPT_COND_INSERT and t['args']:
            pl = t['args'][0].get('move') or t['args'][0].get('copy')
            if pl is None:
                continue
            idt = fn.place_terms(pl, (bi, fn.nstmts(bi)), mut_kills=False)
            if idt and all(n[0] == 'field' and n[2] == fname and all(q[0] == 'param' and q[1] == 1 for q in n[1]) for n in idt):
                kind = 'store' if t['func']['path'] in OPT_INSERT else 'conditional'
                v = fn.arg_terms(t, 1, bi) if len(t['args']) > 1 else None
                out.append({'block': bi, 'idx': fn.nstmts(bi), 'kind': kind, 'value': v, 'raw': v})
    return out


def zip_components(elem_terms):
    """elem_terms = the element of a loop over A.iter..().zip(B.iter..()): returns (A base terms, B base terms) with the
    iterator adaptors (iter, iter_mut, into_iter, enumerate is NOT stripped) removed, or None"""
    src = iter_source(elem_terms)
    if src is None or len(src) != 1:
        return None
    z = next(iter(src))
    if not (z[0] == 'call' and z[1] == 'std::iter::Iterator::zip' and len(z[2]) == 2):
        return None

    def base(ts):
        for _ in range(4):
            if len(ts) == 1:
                n = next(iter(ts))
                if n[0] == 'call' and n[2] and n[1].rsplit('::', 1)[-1] in ('iter', 'iter_mut', 'into_iter', 'deref', 'deref_mut', 'as_slice', 'as_mut_slice'):
                    ts = n[2][0]
                    continue
            break
        return ts
    return base(z[2][0]), base(z[2][1])


def goal_mask_info(ctx, planner, ts):
    """ts is a per-milestone goal mask: `CONT.iter().map(|n| goal.is_satisfied(&n.<state>)).collect::<Vec<bool>>()` - element
    i is the goal test on CONT[i] (one element per milestone, in order).  Returns the container terms, else None."""
    from .core import IS_SATISFIED
    if len(ts) != 1:
        return None
    n = next(iter(ts))
    if not (n[0] == 'call' and n[1] == 'std::iter::Iterator::collect' and n[2] and len(n[2][0]) == 1):
        return None
    mp = next(iter(n[2][0]))
    if not (mp[0] == 'call' and mp[1] == 'std::iter::Iterator::map' and len(mp[2]) == 2 and len(mp[2][0]) == 1 and len(mp[2][1]) == 1):
        return None
    it, cl = next(iter(mp[2][0])), next(iter(mp[2][1]))
    if cl[0] != 'closure' or not (it[0] == 'call' and it[1] == 'core::slice::<impl [T]>::iter' and len(it[2]) == 1):
        return None
    cont = it[2][0]
    cb = ctx.core.body(cl[1])
    if cb is None or cb.arg_count != 2:
        return None
    cf = ctx.fn(cb)
    rt = set()
    for rb in cf.return_blocks():
        rt |= cf.local_terms(0, (rb, cf.nstmts(rb)))
    sfs = {c['state_field'] for c in planner['containers'].values()}
    for r in rt:
        if not (r[0] == 'call' and r[1] == IS_SATISFIED and len(r[2]) == 2):
            return None
        st = r[2][1]
        if not (st and all(x[0] == 'field' and x[2] in sfs and x[1] and all(z[0] == 'param' and z[1] == 2 for z in x[1]) for x in st)):
            return None
    return cont if rt else None


def argmin_info(ctx, ts):
    """ts (or the tuple it is a component of) is the result of

        C.iter().enumerate().map(|(i, n)| (i, space.distance(&n.<state>, target))).min_by(|a, b| a.d.partial_cmp(&b.d)..).unwrap()

    i.e. the first element of minimal distance over the WHOLE container (Iterator::min_by returns the first of several
    equally minimal elements - std documentation).  Returns dict(R, comp, cont, target, space, sf, idx_comp, dist_comp)
    or None.  Checked: the scan is enumerate(iter(C)) with nothing skipped or filtered; the mapping closure returns the
    enumerate index and distance(space, element.state, captured target) (either argument order); the comparator orders
    by that distance component, first argument first (a reversed comparator would select the farthest)."""
    from .core import DISTANCE
    if len(ts) != 1:
        return None
    n = next(iter(ts))
    comp = None
    if n[0] == 'field' and n[2].isdigit() and len(n[1]) == 1:
        comp = int(n[2])
        n = next(iter(n[1]))
    if n[0] != 'unwrap' or len(n[1]) != 1:
        return None
    m = next(iter(n[1]))
    if not (m[0] == 'call' and m[1] == 'std::iter::Iterator::min_by' and len(m[2]) == 2 and len(m[2][0]) == 1 and len(m[2][1]) == 1):
        return None
    mp, c2 = next(iter(m[2][0])), next(iter(m[2][1]))
    if not (mp[0] == 'call' and mp[1] == 'std::iter::Iterator::map' and len(mp[2]) == 2 and len(mp[2][0]) == 1 and len(mp[2][1]) == 1):
        return None
    en, c1 = next(iter(mp[2][0])), next(iter(mp[2][1]))
    if c1[0] != 'closure' or c2[0] != 'closure':
        return None
    if not (en[0] == 'call' and en[1] == 'std::iter::Iterator::enumerate' and len(en[2]) == 1 and len(en[2][0]) == 1):
        return None
    it = next(iter(en[2][0]))
    if not (it[0] == 'call' and it[1] == 'core::slice::<impl [T]>::iter' and len(it[2]) == 1):
        return None
    cont = it[2][0]
    b1, b2 = ctx.core.body(c1[1]), ctx.core.body(c2[1])
    if b1 is None or b2 is None or b1.arg_count != 2 or b2.arg_count != 3:
        return None
    f1, f2 = ctx.fn(b1), ctx.fn(b2)

    def ret(f):
        out = set()
        for rb in f.return_blocks():
            out |= f.local_terms(0, (rb, f.nstmts(rb)))
        return out
    r1 = ret(f1)
    if len(r1) != 1 or next(iter(r1))[0] != 'tuple' or len(next(iter(r1))[1]) != 2:
        return None
    comps = next(iter(r1))[1]
    elem = T(('param', 2, None))
    idx_comp = dist_comp = None
    target = space = sf = None
    caps = c1[2]
    for k, c in enumerate(comps):
        if c == T(('field', elem, '0')):
            idx_comp = k
        elif len(c) == 1 and next(iter(c))[0] == 'call' and next(iter(c))[1] == DISTANCE and len(next(iter(c))[2]) == 3:
            d = next(iter(c))
            for (u, w) in ((d[2][1], d[2][2]), (d[2][2], d[2][1])):
                un = next(iter(u)) if len(u) == 1 else None
                wn = next(iter(w)) if len(w) == 1 else None
                if un is None or wn is None:
                    continue
                # u = element.1.<state field>, w = captured variable k
                if un[0] == 'field' and un[1] == T(('field', elem, '1')) and wn[0] == 'field' and wn[1] == T(('param', 1, None)) and wn[2].isdigit():
                    kk = int(wn[2])
                    sp = next(iter(d[2][0])) if len(d[2][0]) == 1 else None
                    if kk < len(caps) and sp is not None and sp[0] == 'field' and sp[1] == T(('param', 1, None)) and sp[2].isdigit() and int(sp[2]) < len(caps):
                        dist_comp, sf, target, space = k, un[2], caps[kk], caps[int(sp[2])]
    if idx_comp is None or dist_comp is None:
        return None
    # comparator: a.<dist>.partial_cmp(&b.<dist>) [.unwrap_or(Equal) | .unwrap() | .expect()] or total_cmp, a before b
    r2 = ret(f2)
    if len(r2) != 1:
        return None
    q = next(iter(r2))
    for _ in range(2):
        if q[0] == 'unwrap' and len(q[1]) == 1:
            q = next(iter(q[1]))
        elif q[0] == 'call' and q[1] == 'std::option::Option::<T>::unwrap_or' and len(q[2]) == 2 and len(q[2][0]) == 1:
            dflt = q[2][1]
            if not all(x[0] == 'agg' and x[2] == 'Equal' for x in dflt):
                return None
            q = next(iter(q[2][0]))
    if not (q[0] == 'call' and q[1] in ('std::cmp::PartialOrd::partial_cmp', 'core::f64::<impl f64>::total_cmp') and len(q[2]) == 2):
        return None
    want_a = T(('field', T(('param', 2, None)), str(dist_comp)))
    want_b = T(('field', T(('param', 3, None)), str(dist_comp)))
    if q[2][0] != want_a or q[2][1] != want_b:
        return None
    return {'R': T(n), 'comp': comp, 'cont': cont, 'target': target, 'space': space, 'sf': sf, 'idx_comp': idx_comp, 'dist_comp': dist_comp}


def zip_elem_base(ts):
    """ts is (a projection .k.. of) the element of a loop over nested zips of plain iterations: the collection whose
    element it is (iter / iter_mut / into_iter stripped), e.g.  next(zip(iter_mut(O), zip(iter(A), iter(B))))!.1.0 -> A"""
    if len(ts) != 1:
        return None
    n = next(iter(ts))
    path = []
    while n[0] == 'field' and n[2] in ('0', '1') and len(n[1]) == 1:
        path.append(int(n[2]))
        n = next(iter(n[1]))
    if n[0] != 'unwrap' or len(n[1]) != 1:
        return None
    m = next(iter(n[1]))
    if not (m[0] == 'call' and m[1] == 'std::iter::Iterator::next' and m[2]):
        return None

    def strip(it):
        for _ in range(6):
            if len(it) == 1:
                q = next(iter(it))
                if q[0] == 'call' and q[2] and q[1].rsplit('::', 1)[-1] in ('iter', 'iter_mut', 'into_iter', 'copied', 'cloned', 'by_ref'):
                    it = q[2][0]
                    continue
            break
        return it
    it = strip(m[2][0])
    for k in reversed(path):
        if len(it) != 1:
            return None
        z = next(iter(it))
        if not (z[0] == 'call' and z[1] == 'std::iter::Iterator::zip' and len(z[2]) == 2):
            return None
        it = strip(z[2][k])
    return it


def cost_pairs(ctx, planner, ts, cf, sf, depth=0):
    """ts is a cost-to-come expression  <parent>.cost + distance(space, <child>.state, <parent>.state)  written inline or
    through a helper (any signature): returns [(child node terms, parent node terms)], else None.  The helper's return
    value is instantiated with the call's arguments; an INFINITY fallback is ignored."""
    from .core import DISTANCE
    INF = ('inff', 'path:std::f64::INFINITY', 'path:core::f64::INFINITY', 'path:core::f64::<impl f64>::INFINITY',
           'path:std::f64::<impl f64>::INFINITY')
    if not ts:
        return None
    res = []
    for n in ts:
        if n[0] == 'const' and n[1] in INF and depth > 0:
            continue
        if n[0] == 'call' and depth < 2:
            cb = ctx.core.body(n[1])
            if cb is None or cb.j.get('ret_ty') != 'f64':
                return None
            f2 = ctx.fn(cb)
            rt = set()
            for rb in f2.return_blocks():
                rt |= f2.local_terms(0, (rb, f2.nstmts(rb)))
            rt = frozenset(rt)
            for i in range(1, cb.arg_count + 1):
                if i - 1 < len(n[2]):
                    rt = subst(rt, T(('param', i, cb.local_name(i))), n[2][i - 1])
            sub = cost_pairs(ctx, planner, rt, cf, sf, depth + 1)
            if sub is None:
                return None
            res.extend(sub)
            continue
        if n[0] == 'binop' and n[1] == 'Add':
            hit = None
            for (x, y) in ((n[2], n[3]), (n[3], n[2])):
                if len(x) != 1 or len(y) != 1:
                    continue
                xn, yn = next(iter(strip_clone(x))) if strip_clone(x) else None, next(iter(y))
                if xn is None or xn[0] != 'field' or xn[2] != cf:
                    continue
                if yn[0] != 'call' or yn[1] != DISTANCE or len(yn[2]) != 3:
                    continue
                parent = strip_clone(xn[1])
                pstate = T(('field', parent, sf))
                s1, s2 = strip_clone(yn[2][1]), strip_clone(yn[2][2])
                other = s2 if s1 == pstate else (s1 if s2 == pstate else None)
                if other is None or not other:
                    continue
                if len(other) != 1:
                    hit = (T(('agg', '<state>', 'StateOnly', ((sf, other),))), parent)
                    continue
                on = next(iter(other))
                if on[0] == 'field' and on[2] == sf:
                    hit = (strip_clone(on[1]), parent)
                else:
                    # the child is given by its state only (a node that is not built yet): a pseudo node carrying that state
                    hit = (T(('agg', '<state>', 'StateOnly', ((sf, other),))), parent)
            if hit is None:
                return None
            res.append(hit)
            continue
        return None
    return res or None
