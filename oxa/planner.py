"""Planner vocabulary shared by the admission-family rules (C01, C02, C03, C05, C15..C18):
container pushes, node literals, link writes, motion-checker calls, validity / goal queries."""
import re

from .core import (IS_VALID, IS_SATISFIED, VEC_PUSH, VEC_CLEAR, DISTANCE, INTERPOLATE, user_call)
from .engine import walk, strip_clone, fmt_terms, T


def node_vec_ty(planner, ty):
    """is `ty` (a local's type string) a (reference to a) Vec / slice of one of the planner's node structs?"""
    for c in planner['containers'].values():
        n = re.escape(c['node'])
        if re.search(r'(std::vec::Vec<|\[)' + n + r'<', ty):
            return c
    return None


def planner_bodies(planner):
    return planner['methods'] + planner['closures']


def call_true_edges(fn, block):
    """(true_edges, false_edges) of the boolean result of the call terminating `block`"""
    site = (fn.path, block)

    def pred(n):
        return n[0] == 'call' and n[3] == site
    te, fe, _sb = fn.bool_edges(pred)
    return te, fe


def pushes(ctx, planner):
    """every Vec::push on a node container in the planner's code"""
    out = []
    for b in planner_bodies(planner):
        fn = ctx.fn(b)
        for bi, t in b.calls():
            if t['func'].get('path') != VEC_PUSH:
                continue
            a0 = t['args'][0]
            pl = a0.get('move') or a0.get('copy')
            if pl is None:
                continue
            ty = b.local_ty(pl['l'])
            c = node_vec_ty(planner, ty)
            if c is None:
                continue
            cont = fn.place_terms(pl, (bi, fn.nstmts(bi)), mut_kills=False)
            node = fn.arg_terms(t, 1, bi)
            out.append({'body': b, 'fn': fn, 'block': bi, 'term': t, 'cont': cont, 'node': node, 'cinfo': c,
                        'in_setup': b.name == 'setup'})
    return out


def node_field(node_terms, name):
    """terms of field `name` across all node literals in node_terms; None if some node is not a literal"""
    out = set()
    for n in node_terms:
        if n[0] != 'agg':
            return None
        hit = [t for (f, t) in n[3] if f == name]
        if not hit:
            return None
        out |= hit[0]
    return frozenset(out)


def is_none(ts):
    return bool(ts) and all(n[0] == 'agg' and n[2] == 'None' for n in ts)


def is_some(ts):
    return bool(ts) and all(n[0] == 'agg' and n[2] == 'Some' for n in ts)


def motion_calls(ctx, planner):
    """call sites of motion checkers inside the planner: from/to argument terms and guard edges"""
    mcs = {m.path: m for m in ctx.motion_checkers()}
    out = []
    for b in planner_bodies(planner):
        fn = ctx.fn(b)
        for bi, t in b.calls():
            p = t['func'].get('path')
            if p not in mcs:
                continue
            m = mcs[p]
            sidx = [i - 1 for i in range(1, m.arg_count + 1) if m.local_ty(i) in ('&S', "&'_ S")]
            if len(sidx) < 2:
                continue
            frm = fn.arg_terms(t, sidx[0], bi)
            to = fn.arg_terms(t, sidx[1], bi)
            te, fe = call_true_edges(fn, bi)
            out.append({'body': b, 'fn': fn, 'block': bi, 'term': t, 'from': frm, 'to': to, 'true_edges': te,
                        'false_edges': fe, 'checker': m})
    return out


def validity_queries(ctx, planner):
    out = []
    for b in planner_bodies(planner):
        fn = ctx.fn(b)
        for bi, t in b.calls():
            if t['func'].get('path') != IS_VALID:
                continue
            st = fn.arg_terms(t, 1, bi)
            te, fe = call_true_edges(fn, bi)
            out.append({'body': b, 'fn': fn, 'block': bi, 'term': t, 'state': st, 'true_edges': te,
                        'false_edges': fe})
    return out


def goal_queries(ctx, planner):
    out = []
    for b in planner_bodies(planner):
        fn = ctx.fn(b)
        for bi, t in b.calls():
            if t['func'].get('path') != IS_SATISFIED:
                continue
            st = fn.arg_terms(t, 1, bi)
            te, fe = call_true_edges(fn, bi)
            out.append({'body': b, 'fn': fn, 'block': bi, 'term': t, 'state': st, 'true_edges': te,
                        'false_edges': fe})
    return out


def same_value(a, b):
    """two term sets denote the same value (clone-transparent); both non-empty"""
    a, b = strip_clone(a), strip_clone(b)
    return bool(a) and a == b


def guarded(fn, block, edges):
    return bool(edges) and block not in fn.reachable(0, removed=frozenset(edges))


def is_start_origin(ts):
    """<problem_def>.start_states[..] (of the planner's own problem_def field or a parameter)"""
    ts = strip_clone(ts)
    if not ts:
        return False
    for n in ts:
        if n[0] != 'index':
            return False
        for m in n[1]:
            if not (m[0] == 'field' and m[2] == 'start_states'):
                return False
    return True


def container_state(ts, planner=None):
    """term set is <container>[i].state for a node container; returns list of (container terms, index terms)"""
    ts = strip_clone(ts)
    out = []
    if not ts:
        return None
    for n in ts:
        if n[0] != 'field':
            return None
        for m in n[1]:
            if m[0] == 'index':
                out.append((m[1], m[2]))
            elif m[0] == 'unwrap' or m[0] == 'field':
                # iterator element of a container: unwrap(next(iter(container)))[.1]
                out.append((T(m), None))
            else:
                return None
    return out
