"""Rules on the normal forms of oxa/symval.py: algebraic clauses of C09 (distance) and C10 (interpolation).

Verdict policy (differs deliberately from the shape recognisers elsewhere, which fail closed): a normal form is a
*proof* when the two sides are syntactically equal; normal forms are not complete, so two different forms are reported
as a violation only when they also denote different real functions, which is decided on the two TERMS (not on the
program) by evaluating them at a fixed set of points (`term_differs`) - the polynomial-identity-testing step of any
normal-form comparison.  TOP (something the value numbering does not track) and "forms differ but agree everywhere
tried" are *undecided*: no alarm, recorded in the evidence as not shown."""
import math
import random

from .symval import (Poly, SymVal, TOP, subst, from_key, collect_atoms, swap_params, replace_param, fmt_poly, app, ite,
                     sign_canon, has_atom)

PI = math.pi


# ------------------------------------------------------------------------------------------------ term evaluation
class Env:
    def __init__(self, seed, special=False):
        self.rnd = random.Random(seed)
        self.vals = {}
        self.special = special
        self.npos = 3

    def leaf(self, a, k):
        key = (a, k)
        if key not in self.vals and getattr(self, 'unit', False) and a[0] == 'leaf' and a[2] and a[2][-1] in ('x', 'y', 'z', 'w'):
            # the four components of one quaternion are drawn together, normalised
            q = [self.rnd.gauss(0, 1) for _ in range(4)]
            if self.special:
                q = self.rnd.choice([[1, 0, 0, 0], [0, 0, 0, 1], [0.5, 0.5, 0.5, 0.5], [0, 0.6, 0.8, 0], q])
            first = getattr(self, '_first_q', None)
            if first is None:
                self._first_q = q
            elif getattr(self, 'near', False):
                # nearly the same rotation as the first quaternion drawn, either representative
                sg = self.rnd.choice([1.0, -1.0])
                q = [sg * f + 0.02 * self.rnd.gauss(0, 1) for f in first]
            nrm = math.sqrt(sum(x * x for x in q)) or 1.0
            if first is None:
                self._first_q = [x / nrm for x in q]
            for c, v in zip('xyzw', q):
                self.vals[(('leaf', a[1], a[2][:-1] + (c,)), k)] = v / nrm
        if key not in self.vals:
            if self.special:
                self.vals[key] = self.rnd.choice([0.0, PI, -PI, PI / 2, -PI / 2, 1.0, -1.0, 3 * PI, -2 * PI, 0.5, 2.5, -2.5])
            else:
                self.vals[key] = self.rnd.uniform(-4.0, 4.0)
        return self.vals[key]


def ev(p, env, k=None):
    """value of a normal form; raises ValueError / ZeroDivisionError / OverflowError where undefined"""
    tot = 0.0
    for mono, c in p.m.items():
        v = c
        for a, pw in mono:
            x = ev_atom(a, env, k)
            v *= x ** pw
        tot += v
    return tot


def ev_atom(a, env, k):
    t = a[0]
    if t == 'leaf':
        pos = k if any(isinstance(x, tuple) and x[0] == 'idx' and x[1] == 'k' for x in a[2]) else None
        return env.leaf(a, pos)
    if t == 'fn':
        args = [ev(from_key(x), env, k) for x in a[2]]
        n = a[1]
        if n.startswith('call:'):
            # an uninterpreted function: a fixed pseudo-random function of its arguments
            h = hash((n,) + tuple(round(x, 9) for x in args)) & 0xffffff
            return (h / float(0xffffff)) * 3.0
        if n == 'rem_euclid':
            r = math.fmod(args[0], args[1])
            return r + abs(args[1]) if r < 0 else r
        if n == 'rem':
            return math.fmod(args[0], args[1])
        if n == 'min':
            return min(args)
        if n == 'max':
            return max(args)
        if n == 'clamp':
            return max(args[1], min(args[0], args[2]))
        if n == 'atan2':
            return math.atan2(args[0], args[1])
        if n == 'copysign':
            return math.copysign(args[0], args[1])
        if n == 'powf':
            return args[0] ** args[1]
        f = {'sqrt': math.sqrt, 'abs': abs, 'sin': math.sin, 'cos': math.cos, 'tan': math.tan, 'acos': math.acos, 'asin': math.asin,
             'atan': math.atan, 'exp': math.exp, 'ln': math.log, 'floor': math.floor, 'ceil': math.ceil, 'round': round,
             'trunc': math.trunc, 'signum': lambda x: math.copysign(1.0, x), 'sinh': math.sinh, 'cosh': math.cosh, 'tanh': math.tanh,
             'to_radians': math.radians, 'to_degrees': math.degrees, 'cbrt': lambda x: math.copysign(abs(x) ** (1 / 3), x)}.get(n)
        if f is None:
            raise ValueError('no evaluation for ' + n)
        return f(args[0])
    if t == 'poly':
        return ev(from_key(a[1]), env, k)
    if t == 'ite':
        rel, key = a[1][0], a[1][1]
        if rel not in ('<', '<=', '=='):
            h = hash(a[1]) & 1
            c = bool(h)
        else:
            v = ev(from_key(key), env, k)
            c = {'<': v < 0, '<=': v <= 0, '==': v == 0}[rel]
        return ev(from_key(a[2] if c else a[3]), env, k)
    if t == 'sum':
        return sum(ev(from_key(a[2]), env, i) for i in range(env.npos))
    if t == 'reduce':
        vals = [ev(from_key(a[3]), env, i) for i in range(env.npos)]
        return max(vals) if a[1] == 'max' else min(vals)
    if t == 'int':
        return float(env.leaf(a, None) // 1)
    if t in ('opq', 'proj', 'pos', 'acc', 'phi'):
        return env.leaf(a, k if t == 'pos' else None)
    raise ValueError('no evaluation for atom %r' % (t,))


def term_differs(p, q, tol=1e-7, mod=None, envhook=None, rounds=40):
    """True when the two normal forms take different values at some evaluation point (modulo `mod` when given);
    False when they agree at every point where both are defined; None when nothing could be evaluated"""
    n_ok = 0
    for seed in range(rounds):
        env = Env(seed, special=seed % 3 == 2)
        if envhook:
            envhook(env)
        try:
            a, b = ev(p, env), ev(q, env)
        except (ValueError, ZeroDivisionError, OverflowError, TypeError):
            continue
        if a != a or b != b or abs(a) == math.inf or abs(b) == math.inf:
            continue
        n_ok += 1
        d = a - b
        if mod:
            d = math.fmod(d, mod)
            d = min(abs(d), abs(abs(d) - mod))
        if abs(d) > tol * max(1.0, abs(a), abs(b)):
            return True
    return False if n_ok >= 5 else None


# ------------------------------------------------------------------------------------------------ congruence modulo M
def reduce_mod(p, M):
    """a representative of p modulo M: n * rem_euclid(x, M) -> n * x for integer n, constants reduced, gating terms whose
    arms are congruent collapsed; None when p is TOP"""
    if p is None:
        return TOP
    for _ in range(6):
        changed = False
        out = Poly()
        for mono, c in p.m.items():
            if mono == ():
                r = math.fmod(c, M)
                if abs(r) < 1e-9 or abs(abs(r) - M) < 1e-9:
                    r = 0.0
                if r != c:
                    changed = True
                out = out + Poly.const(r)
                continue
            if len(mono) == 1 and mono[0][1] == 1 and abs(c - round(c)) < 1e-12:
                a = mono[0][0]
                if a[0] == 'fn' and a[1] == 'rem_euclid' and abs(from_key(a[2][1]).cval() - M) < 1e-9 and from_key(a[2][1]).is_const():
                    out = out + from_key(a[2][0]).scale(c)
                    changed = True
                    continue
                if a[0] == 'ite':
                    x, y = reduce_mod(from_key(a[2]), M), reduce_mod(from_key(a[3]), M)
                    if x is not None and y is not None and x == y:
                        out = out + x.scale(c)
                        changed = True
                        continue
                if a[0] == 'int' and abs(math.fmod(c, M)) < 1e-9:
                    changed = True
                    continue
            if len(mono) == 2 and abs(math.fmod(c, M)) < 1e-9 or (len(mono) == 1 and mono[0][0][0] == 'int' and abs(math.fmod(c, M)) < 1e-9):
                if any(a[0] == 'int' for a, _p in mono) and all(a[0] == 'int' for a, _p in mono):
                    changed = True
                    continue
            out = out + Poly({mono: c})
        p = out
        if not changed:
            break
    return p


def congruent(p, q, M):
    if p is None or q is None:
        return None
    d = reduce_mod(p - q, M)
    return d is not None and d.is_zero()


# ------------------------------------------------------------------------------------------------ case analysis
def cases(polys, limit=6, ties=True):
    """[(assignment, [poly..])] over the feasible truth assignments of the comparison conditions that gate the polys"""
    if not ties:
        # `p < 0` and `p <= 0` differ on the tie p == 0 only: one condition (configurations on the tie are a null set
        # on which the property allows either answer)
        def f0(a):
            if a[0] == 'ite' and a[1][0] == '<=':
                x, y = subst(from_key(a[2]), f0), subst(from_key(a[3]), f0)
                cp = subst(from_key(a[1][1]), f0)
                if cp is None:
                    return 'TOP'
                sg, q = sign_canon(cp)
                if cp.is_const():
                    sg, q = 1, cp
                r = ite(('<', q.key()), x, y) if sg > 0 else ite(('<', q.key()), y, x)
                return r if r is not None else 'TOP'
            return None
        polys = [subst(p, f0) if p is not None else None for p in polys]
    conds = []
    for p in polys:
        if p is None:
            return None
        for a in collect_atoms(p, lambda a: a[0] == 'ite'):
            if a[1] not in conds:
                conds.append(a[1])
    if len(conds) > limit:
        return None
    out = []
    for bits in range(1 << len(conds)):
        asg = {c: bool(bits >> n & 1) for n, c in enumerate(conds)}
        if not feasible(asg):
            continue

        def f(a, _asg=asg):
            if a[0] == 'ite' and a[1] in _asg:
                r = subst(from_key(a[2] if _asg[a[1]] else a[3]), f)
                return r if r is not None else 'TOP'
            return None
        ps = [subst(p, f) for p in polys]
        # substitution can expose new gating terms (conditions over values that were themselves gated)
        if any(p is not None and collect_atoms(p, lambda a: a[0] == 'ite' and a[1] not in asg) for p in ps):
            sub = cases(ps, limit - 2, ties) if limit > 2 else None
            if sub is None:
                return None
            for asg2, ps2 in sub:
                m = dict(asg)
                m.update(asg2)
                if feasible(m):
                    out.append((m, ps2))
            continue
        out.append((asg, ps))
    return out


def feasible(asg):
    """linear consistency of conditions over the same non-constant polynomial:  q + c  rel 0"""
    by = {}
    for (rel, key), truth in asg.items():
        if rel not in ('<', '<='):
            continue
        p = from_key(key)
        c0 = p.cval()
        q = p - Poly.const(c0)
        s, qq = sign_canon(q)
        if q.is_zero():
            continue
        # s*qq + c0 rel 0
        lo, hi = by.setdefault(qq.key(), [(-math.inf, False), (math.inf, False)])
        # truth: s*qq rel -c0 ; falsity: s*qq rel' -c0 with > / >=
        if s > 0:
            if truth:       # qq < -c0  (or <=)
                b = (-c0, rel == '<')
                if b[0] < hi[0] or (b[0] == hi[0] and b[1]):
                    hi = b
            else:           # qq >= -c0 (or >)
                b = (-c0, rel == '<=')
                if b[0] > lo[0] or (b[0] == lo[0] and b[1]):
                    lo = b
        else:
            if truth:       # -qq < -c0  ->  qq > c0
                b = (c0, rel == '<')
                if b[0] > lo[0] or (b[0] == lo[0] and b[1]):
                    lo = b
            else:           # -qq >= -c0 -> qq <= c0
                b = (c0, rel == '<=')
                if b[0] < hi[0] or (b[0] == hi[0] and b[1]):
                    hi = b
        by[qq.key()] = [lo, hi]
    for lo, hi in by.values():
        if lo[0] > hi[0] or (lo[0] == hi[0] and (lo[1] or hi[1])):
            return False
    return True


# ------------------------------------------------------------------------------------------------ helpers for rules
def opaque(p):
    return p is None or has_atom(p, lambda a: a[0] in ('opq', 'proj', 'phi', 'acc'))


def unit_rewrite(p):
    """x^2 + y^2 + z^2 + w^2 = 1 for the four components of one quaternion (unit-input assumption of the property)"""
    if p is None:
        return p
    groups = {}
    for mono, c in p.m.items():
        if len(mono) == 1 and mono[0][1] == 2 and mono[0][0][0] == 'leaf' and mono[0][0][2] and mono[0][0][2][-1] in ('x', 'y', 'z', 'w'):
            a = mono[0][0]
            groups.setdefault((a[1], a[2][:-1], round(c, 12)), {})[a[2][-1]] = mono
    out = Poly(dict(p.m))
    for (root, path, c), comps in groups.items():
        if set(comps) == {'x', 'y', 'z', 'w'}:
            m = dict(out.m)
            for mono in comps.values():
                del m[mono]
            out = Poly(m) + Poly.const(c)
    return out


def deep_unit(p):
    """unit_rewrite applied inside function arguments too"""
    if p is None:
        return p

    def f(a):
        if a[0] == 'fn':
            args = [deep_unit(from_key(x)) for x in a[2]]
            r = app(a[1], args)
            return r if r is not None else 'TOP'
        return None
    return unit_rewrite(subst(p, f))


def analyze(ctx, body, consts=None):
    sv = SymVal(ctx, ctx.core, consts=consts or {})
    try:
        r = sv.analyze(body)
    except RecursionError:
        r = {}
    return r, sv.notes


def negate_param(p, i):
    """the term with every float read through parameter i negated (q -> -q)"""
    def f(a):
        if a[0] == 'leaf' and a[1] == i:
            return -Poly.atom(a)
        return None
    return subst(p, f)


def sign_invariant(vals, i):
    """vals: {name: Poly}.  'E' when every value is unchanged by negating parameter i, 'O' when every value is negated
    (all together, in every feasible case of the gating comparisons, ties aside); None when not shown"""
    if not vals or any(opaque(v) for v in vals.values()):
        return None
    ks = sorted(vals, key=repr)
    neg = [negate_param(vals[k], i) for k in ks]
    if any(v is None for v in neg):
        return None
    cs = cases([vals[k] for k in ks] + neg, ties=False)
    if not cs:
        return None
    verdicts = set()
    for _asg, ps in cs:
        m = len(ks)
        if any(x is None for x in ps):
            return None
        if all(ps[j] == ps[m + j] for j in range(m)):
            verdicts.add('E')
        elif all((ps[j] + ps[m + j]).is_zero() for j in range(m)):
            verdicts.add('O')
        else:
            return None
    # a rotation is the same whether all four components are kept or all are negated, case by case
    return 'E' if verdicts == {'E'} else 'O' if verdicts == {'O'} else 'EO'


def cancel_recips(p):
    """(sum of cofactors) * (P)^-1 with the cofactors adding up to P is 1"""
    if p is None:
        return p
    groups = {}
    rest = {}
    for mono, c in p.m.items():
        rec = [(a, pw) for a, pw in mono if a[0] == 'poly' and pw == -1]
        if len(rec) == 1:
            co = tuple((a, pw) for a, pw in mono if not (a[0] == 'poly' and pw == -1))
            groups.setdefault(rec[0][0], {})[co] = c
        else:
            rest[mono] = c
    out = Poly(rest)
    for a, cof in groups.items():
        s = Poly(cof)
        base = from_key(a[1])
        if s == base:
            out = out + Poly.const(1.0)
        elif s == -base:
            out = out - Poly.const(1.0)
        else:
            out = out + s * Poly({((a, -1),): 1.0})
    return out
