"""Loading of mirfacts JSON and light-weight wrappers (Body, Block) + pretty printer."""
import json, os, glob


class Body:
    def __init__(self, j, crate):
        self.j = j
        self.crate = crate
        self.path = j['path']
        self.kind = j['kind']
        self.name = j.get('name')
        self.blocks = j['blocks']
        self.locals = j['locals']
        self.arg_count = j['arg_count']
        self.params = j.get('params', [])
        self.impl_trait = j.get('impl_trait')
        self.impl_self = j.get('impl_self')
        self.impl_adt = j.get('impl_adt')
        self.parent = j.get('parent')
        self.is_pub = j.get('pub', False)
        self.span = j['span']
        self._succ = None
        self._pred = None

    @property
    def file(self):
        return self.span['file']

    def in_test_mod(self):
        return '::tests::' in self.path or self.path.endswith('::tests')

    # -- CFG ------------------------------------------------------------------------------
    def term(self, b):
        return self.blocks[b]['term']

    def succs_all(self, b):
        """all successors including unwind edges"""
        t = self.blocks[b]['term']
        k = t['k']
        out = []
        if k == 'goto':
            out = [t['target']]
        elif k == 'switch':
            out = [x[1] for x in t['targets']] + [t['otherwise']]
        elif k in ('drop', 'assert'):
            out = [t['target']]
            if t.get('unwind') is not None:
                out.append(t['unwind'])
        elif k == 'call':
            if t['target'] is not None:
                out.append(t['target'])
            if t.get('unwind') is not None:
                out.append(t['unwind'])
        elif k == 'other':
            out = list(t.get('succ', []))
        return out

    def succs(self, b):
        """normal-flow successors (no unwind/cleanup edges)"""
        t = self.blocks[b]['term']
        k = t['k']
        if k == 'goto':
            return [t['target']]
        if k == 'switch':
            seen = []
            for x in [y[1] for y in t['targets']] + [t['otherwise']]:
                if x not in seen:
                    seen.append(x)
            return seen
        if k in ('drop', 'assert'):
            return [t['target']]
        if k == 'call':
            return [t['target']] if t['target'] is not None else []
        if k == 'other':
            return [s for s in t.get('succ', []) if not self.blocks[s]['cleanup']]
        return []

    def preds(self):
        if self._pred is None:
            p = {i: [] for i in range(len(self.blocks))}
            for i in range(len(self.blocks)):
                for s in self.succs(i):
                    p[s].append(i)
            self._pred = p
        return self._pred

    def local_name(self, l):
        n = self.locals[l].get('name')
        return n

    def local_ty(self, l):
        return self.locals[l]['ty']

    def calls(self):
        """yield (block index, terminator) for every Call terminator in non-cleanup blocks"""
        for i, b in enumerate(self.blocks):
            if b['cleanup']:
                continue
            t = b['term']
            if t['k'] == 'call':
                yield i, t

    def loc(self, b, si=None):
        blk = self.blocks[b]
        if si is None or si >= len(blk['stmts']):
            sp = blk['tspan']
        else:
            sp = blk['stmts'][si].get('span', blk['tspan'])
        return '%s:%d' % (sp['file'], sp['l0'])


class Crate:
    def __init__(self, j):
        self.j = j
        self.name = j['crate']
        self.is_test = j['is_test']
        self.bodies = [Body(b, self) for b in j['bodies']]
        self.by_path = {}
        for b in self.bodies:
            self.by_path.setdefault(b.path, b)
        self.adts = {a['path']: a for a in j['adts']}
        self.impls = j['impls']
        self.traits = {t['path']: t for t in j['traits']}

    def body(self, path):
        return self.by_path.get(path)

    def accessors(self):
        """{trait method path: field name} for the methods of the crate's own traits whose every impl in the crate only returns
        (a reference to / a copy of) the same-named field of `self` (`fn state(&self) -> &S { &self.state }`): calling such a
        method IS reading that field, whatever the implementing type"""
        if getattr(self, '_accessors', None) is not None:
            return self._accessors
        per = {}
        for b in self.bodies:
            tr = b.j.get('impl_trait')
            if b.kind != 'AssocFn' or not tr or tr not in self.traits or b.in_test_mod() or b.arg_count != 1:
                continue
            key = tr + '::' + (b.name or '')
            fld = None
            real = [blk for blk in b.blocks if not blk['cleanup']]
            stmts = [st for blk in real for st in blk['stmts'] if st['k'] == 'assign']
            ok = len(real) <= 2 and all(blk['term']['k'] in ('return', 'goto') for blk in real) and 1 <= len(stmts) <= 2
            if ok:
                # _0 = &(*_1).F | _0 = copy (*_1).F | (_2 = &(*_1).F; _0 = &(*_2))
                pl = None
                for st in stmts:
                    rv = st['rv']
                    src = rv.get('place') if rv['k'] == 'ref' else ((rv['op'].get('copy') or rv['op'].get('move')) if rv['k'] == 'use' else None)
                    if src is None:
                        ok = False
                        break
                    if src['l'] == 1:
                        pl = src
                if ok and pl is not None:
                    fs = [e for e in pl['p'] if isinstance(e, dict) and 'f' in e]
                    if len(fs) == 1 and all(e == 'deref' or e is fs[0] for e in pl['p']):
                        fld = fs[0].get('name') if fs[0].get('name') is not None else str(fs[0]['f'])
            per.setdefault(key, []).append(fld)
        self._accessors = {k: v[0] for k, v in per.items() if v and v[0] is not None and all(x == v[0] for x in v)}
        return self._accessors


class Facts:
    def __init__(self, directory):
        self.dir = directory
        self.crates = {}
        self.files = []
        for f in sorted(glob.glob(os.path.join(directory, '*.json'))):
            with open(f) as fh:
                j = json.load(fh)
            key = (j['crate'], 'test' if j['is_test'] else 'main')
            self.crates[key] = Crate(j)
            self.files.append(os.path.basename(f))

    def crate(self, name, kind='main'):
        return self.crates.get((name, kind))

    def total_bodies(self):
        return sum(len(c.bodies) for c in self.crates.values())


# ---------------------------------------------------------------------------------------------
# pretty printing

def fmt_place(body, p):
    s = '_%d' % p['l']
    n = body.local_name(p['l']) if body is not None else None
    if n:
        s = '%s{%s}' % (s, n)
    for e in p['p']:
        if e == 'deref':
            s = '(*%s)' % s
        elif 'f' in e:
            s = '%s.%s' % (s, e['name'] if e.get('name') else e['f'])
        elif 'idx' in e:
            s = '%s[_%d]' % (s, e['idx'])
        elif 'cidx' in e:
            s = '%s[%s%d]' % (s, '-' if e['from_end'] else '', e['cidx'])
        elif 'down' in e:
            s = '(%s as %s)' % (s, e.get('name') or e['down'])
        else:
            s = '%s.<%s>' % (s, json.dumps(e))
    return s


def fmt_const(c):
    if 'fn' in c:
        return 'fn ' + c['fn']['full']
    if 'fval' in c:
        return c['fval'] + 'f'
    if 'val' in c:
        return str(c['val']).lower()
    if 'ival' in c:
        return c['ival']
    return 'const ' + c.get('dbg', '?')


def fmt_op(body, o):
    if 'copy' in o:
        return fmt_place(body, o['copy'])
    if 'move' in o:
        return 'move ' + fmt_place(body, o['move'])
    if 'const' in o:
        return fmt_const(o['const'])
    return json.dumps(o)


def fmt_rv(body, rv):
    k = rv['k']
    if k == 'use':
        return fmt_op(body, rv['op'])
    if k == 'ref':
        return '&%s%s' % ('mut ' if rv['mut'] else '', fmt_place(body, rv['place']))
    if k == 'rawptr':
        return '&raw %s%s' % ('mut ' if rv['mut'] else 'const ', fmt_place(body, rv['place']))
    if k == 'cast':
        return '%s as %s (%s)' % (fmt_op(body, rv['op']), rv['ty'], rv['cast'])
    if k == 'binop':
        return '%s(%s, %s)' % (rv['op'], fmt_op(body, rv['a']), fmt_op(body, rv['b']))
    if k == 'unop':
        return '%s(%s)' % (rv['op'], fmt_op(body, rv['a']))
    if k == 'discr':
        return 'discriminant(%s)' % fmt_place(body, rv['place'])
    if k == 'agg':
        fs = ', '.join(fmt_op(body, f) for f in rv['fields'])
        if rv['agg'] == 'adt':
            names = rv.get('field_names', [])
            fs = ', '.join('%s: %s' % (names[i] if i < len(names) else i, fmt_op(body, f))
                           for i, f in enumerate(rv['fields']))
            return '%s::%s{%s}' % (rv['adt'], rv['variant_name'], fs)
        if rv['agg'] == 'closure':
            return 'closure %s [%s]' % (rv['closure'], fs)
        return '%s(%s)' % (rv['agg'], fs)
    if k == 'repeat':
        return '[%s; %s]' % (fmt_op(body, rv['op']), rv['n'])
    return rv.get('dbg', json.dumps(rv))


def fmt_span(sp):
    s = '%s:%d' % (os.path.basename(sp['file']), sp['l0'])
    if sp.get('mac'):
        s += ' !' + '>'.join(sp['mac'])
    if sp.get('desugar'):
        s += ' ~' + sp['desugar']
    return s


def fmt_term(body, t):
    k = t['k']
    if k == 'goto':
        return 'goto -> bb%d' % t['target']
    if k == 'switch':
        return 'switch(%s) [%s, otherwise: bb%d]' % (
            fmt_op(body, t['discr']), ', '.join('%s: bb%d' % (v, b) for v, b in t['targets']),
            t['otherwise'])
    if k == 'call':
        f = t['func']
        if 'indirect' in f:
            name = 'indirect ' + fmt_op(body, f['indirect'])
        else:
            name = f['full']
            if 'resolved' in f:
                name += ' => ' + f['resolved']['path']
        return '%s = %s(%s) -> %s' % (
            fmt_place(body, t['dest']), name, ', '.join(fmt_op(body, a) for a in t['args']),
            'bb%d' % t['target'] if t['target'] is not None else '!')
    if k == 'drop':
        return 'drop(%s) -> bb%d' % (fmt_place(body, t['place']), t['target'])
    if k == 'assert':
        return 'assert(%s == %s, %s) -> bb%d' % (fmt_op(body, t['cond']), str(t['expected']).lower(),
                                                 t['msg'], t['target'])
    return k


def dump_body(body, cleanup=False):
    out = []
    out.append('fn %s  [%s]  %s' % (body.path, body.kind, fmt_span(body.span)))
    for i, l in enumerate(body.locals):
        out.append('  let _%d%s: %s' % (i, '{%s}' % l['name'] if l.get('name') else '', l['ty']))
    for d in body.j.get('debug', []):
        if d['place']['p']:
            out.append('  debug %s => %s' % (d['name'], fmt_place(body, d['place'])))
    for i, b in enumerate(body.blocks):
        if b['cleanup'] and not cleanup:
            continue
        out.append('  bb%d%s:' % (i, ' (cleanup)' if b['cleanup'] else ''))
        for s in b['stmts']:
            if s['k'] == 'assign':
                out.append('    %s = %s    // %s' % (fmt_place(body, s['place']), fmt_rv(body, s['rv']),
                                                    fmt_span(s['span'])))
            else:
                out.append('    %s' % json.dumps(s)[:200])
        out.append('    %s    // %s' % (fmt_term(body, b['term']), fmt_span(b['tspan'])))
    return '\n'.join(out)
