"""A7 (iii): interval abstract interpretation of f64 computations over MIR (range + may-be-NaN).

Sound over-approximation for the operations that occur in the state spaces: + - * / neg, abs, sqrt, powi, min,
max, clamp, acos, sin, cos, rem_euclid, ceil/floor, `Iterator::sum` over a mapped closure, accumulation loops
(widened), local calls (analysed recursively with unknown inputs).  Inputs (loads through references, parameters) are
assumed finite, non-NaN and bounded by INPUT_BOUND in magnitude (stated in every evidence file that uses it).
"""
import math

INF = float('inf')
INPUT_BOUND = 1e150
PI = math.pi


class Iv:
    __slots__ = ('lo', 'hi', 'nan')

    def __init__(self, lo, hi, nan=False):
        self.lo, self.hi, self.nan = lo, hi, nan

    def __repr__(self):
        return '[%g, %g]%s' % (self.lo, self.hi, ' or NaN' if self.nan else '')

    def __eq__(self, o):
        return isinstance(o, Iv) and (self.lo, self.hi, self.nan) == (o.lo, o.hi, o.nan)

    def join(self, o):
        return Iv(min(self.lo, o.lo), max(self.hi, o.hi), self.nan or o.nan)

    def within(self, lo, hi):
        return not self.nan and self.lo >= lo and self.hi <= hi


TOP = Iv(-INF, INF, True)
INPUT = Iv(-INPUT_BOUND, INPUT_BOUND, False)
EMPTY = None


def const(c):
    if c != c:
        return Iv(INF, -INF, True)
    return Iv(c, c)


def _mulb(a, b):
    if (a == 0 and abs(b) == INF) or (b == 0 and abs(a) == INF):
        return None
    return a * b


def add(a, b):
    nan = a.nan or b.nan or (a.hi == INF and b.lo == -INF) or (a.lo == -INF and b.hi == INF)
    return Iv(a.lo + b.lo if not (abs(a.lo) == INF and abs(b.lo) == INF and a.lo != b.lo) else -INF,
              a.hi + b.hi if not (abs(a.hi) == INF and abs(b.hi) == INF and a.hi != b.hi) else INF, nan)


def neg(a):
    return Iv(-a.hi, -a.lo, a.nan)


def sub(a, b):
    return add(a, neg(b))


def mul(a, b):
    nan = a.nan or b.nan
    vals = []
    for x in (a.lo, a.hi):
        for y in (b.lo, b.hi):
            v = _mulb(x, y)
            if v is None:
                nan = True
                v = 0.0
            vals.append(v)
    # 0 * inf inside the ranges
    if (a.lo <= 0 <= a.hi and (abs(b.lo) == INF or abs(b.hi) == INF)) or (b.lo <= 0 <= b.hi and (abs(a.lo) == INF or abs(a.hi) == INF)):
        nan = True
    return Iv(min(vals), max(vals), nan)


def div(a, b):
    nan = a.nan or b.nan
    if b.lo <= 0 <= b.hi:
        # division by (something that may be) zero: +-inf, and 0/0 = NaN when a may be 0
        if a.lo <= 0 <= a.hi:
            nan = True
        return Iv(-INF, INF, nan or (abs(a.lo) == INF or abs(a.hi) == INF))
    inv = Iv(1.0 / b.hi if b.hi != 0 else INF, 1.0 / b.lo if b.lo != 0 else -INF, False)
    if (abs(a.lo) == INF or abs(a.hi) == INF) and (abs(b.lo) == INF or abs(b.hi) == INF):
        nan = True
    r = mul(Iv(a.lo, a.hi, False), Iv(min(inv.lo, inv.hi), max(inv.lo, inv.hi), False))
    r.nan = r.nan or nan
    return r


def absv(a):
    if a.lo >= 0:
        return Iv(a.lo, a.hi, a.nan)
    if a.hi <= 0:
        return Iv(-a.hi, -a.lo, a.nan)
    return Iv(0.0, max(-a.lo, a.hi), a.nan)


def sqrt(a):
    nan = a.nan or a.lo < 0
    return Iv(math.sqrt(max(a.lo, 0.0)) if a.lo != INF else INF, math.sqrt(a.hi) if 0 <= a.hi < INF else (INF if a.hi == INF else 0.0), nan)


def powi(a, n):
    if n == 2:
        b = absv(a)
        lo = b.lo * b.lo if b.lo < INF else INF
        hi = b.hi * b.hi if b.hi < 1e154 else INF
        return Iv(lo, hi, a.nan)
    if n == 0:
        return Iv(1.0, 1.0, False)
    return Iv(-INF, INF, a.nan)


def fmin(a, b):
    # f64::min returns the non-NaN operand
    lo = min(a.lo, b.lo)
    hi = min(a.hi, b.hi)
    if a.nan:
        hi = max(hi, b.hi)
    if b.nan:
        hi = max(hi, a.hi)
    return Iv(lo, hi, a.nan and b.nan)


def fmax(a, b):
    lo = max(a.lo, b.lo)
    hi = max(a.hi, b.hi)
    if a.nan:
        lo = min(lo, b.lo)
    if b.nan:
        lo = min(lo, a.lo)
    return Iv(lo, hi, a.nan and b.nan)


def acos(a):
    nan = a.nan or a.lo < -1.0 or a.hi > 1.0
    lo = math.acos(min(max(a.hi, -1.0), 1.0))
    hi = math.acos(min(max(a.lo, -1.0), 1.0))
    return Iv(lo, hi, nan)


def sincos(a):
    return Iv(-1.0, 1.0, a.nan or abs(a.lo) == INF or abs(a.hi) == INF)


def rem_euclid(a, m):
    # result in [0, |m|]  (the upper end is attainable through rounding, see std docs); NaN for infinite x or m == 0
    nan = a.nan or m.nan or abs(a.lo) == INF or abs(a.hi) == INF or (m.lo <= 0 <= m.hi)
    mm = max(abs(m.lo), abs(m.hi))
    if a.lo >= 0 and a.hi < min(abs(m.lo), abs(m.hi)) and m.lo > 0:
        return Iv(a.lo, a.hi, nan)
    return Iv(0.0, mm, nan)


F64_PREFIX = ('core::f64::<impl f64>::', 'std::f64::<impl f64>::')


class Interp:
    def __init__(self, ctx, crate, input_iv=INPUT, max_depth=4, field_inputs=None):
        self.ctx = ctx
        self.crate = crate
        self.input = input_iv
        # assumed ranges for fields read through references: {('bounds', '0'): Iv, ...} (assume-guarantee: the
        # guarantee side is established separately, e.g. from the constructor)
        self.field_inputs = field_inputs or {}
        self.max_depth = max_depth
        self._ret_cache = {}
        self.notes = []

    # ------------------------------------------------------------------ operand evaluation
    def _const(self, c):
        if 'fval' in c:
            try:
                return const(float(c['fval']))
            except ValueError:
                return TOP
        if 'ival' in c:
            return const(float(c['ival']))
        if 'uneval' in c:
            m = {'std::f64::consts::PI': PI, 'core::f64::consts::PI': PI, 'std::f64::INFINITY': INF, 'core::f64::INFINITY': INF,
                 'std::f64::NEG_INFINITY': -INF, 'core::f64::NEG_INFINITY': -INF, 'std::f64::EPSILON': 2.220446049250313e-16,
                 'core::f64::EPSILON': 2.220446049250313e-16}
            for k, v in m.items():
                if c['uneval'].endswith(k) or c['uneval'] == k:
                    return const(v)
        return None

    @staticmethod
    def _key(pl):
        from .engine import proj_path
        # a downcast (`as Some`) does not change which field is meant: `(x as Some).0` reads what `x = Some(v)` stored as x.0
        return (pl['l'],) + tuple(t for t in proj_path(pl['p']) if not t.startswith('as:'))

    def _load(self, st, body, pl):
        k = self._key(pl)
        if k in st:
            return st[k]
        # a whole-local copy of a tracked struct is handled by callers; unknown memory => input assumption
        if any(e == 'deref' for e in pl['p']) or pl['l'] <= body.arg_count:
            if self.field_inputs and k[1:] in self.field_inputs:
                return self.field_inputs[k[1:]]
            return self.input
        return st.get((pl['l'],), self.input if body.local_ty(pl['l']) in ('f64', '&f64') else TOP)

    def _src_key(self, st, o):
        """the place an operand was copied from (through chains of scalar copies)"""
        pl = o.get('copy') or o.get('move')
        if pl is None:
            return None
        k = self._key(pl)
        n = 0
        while isinstance(st.get(('alias',) + k), tuple) and n < 6:
            k = st[('alias',) + k]
            n += 1
        return k

    def _op(self, st, body, o):
        if 'const' in o:
            v = self._const(o['const'])
            return v if v is not None else TOP
        pl = o.get('copy') or o.get('move')
        return self._load(st, body, pl)

    # ------------------------------------------------------------------ one body
    def analyze(self, body, arg_ivs=None, depth=0):
        """returns dict: 'ret' -> Iv (f64 return) and ('ret', field..) -> Iv for struct returns,
        plus ('out', param idx, field..) -> Iv for stores through &mut parameters"""
        fn = self.ctx.fn(body)
        nb = len(body.blocks)
        states = {0: {}}
        if arg_ivs:
            for i, v in arg_ivs.items():
                states[0][(i,)] = v
        work = [0]
        visits = {}
        ret = {}
        loop_heads = {L['header'] for L in fn.loops()}
        while work:
            b = work.pop()
            st = dict(states[b])
            visits[b] = visits.get(b, 0) + 1
            blk = body.blocks[b]
            for s in blk['stmts']:
                if s['k'] != 'assign':
                    continue
                self._assign(st, body, s)
            t = blk['term']
            succs = []
            if t['k'] == 'call':
                self._call(st, body, fn, b, t, depth)
                if t['target'] is not None:
                    succs = [(t['target'], st)]
            elif t['k'] == 'switch':
                self._cur_block = b
                succs = self._switch(st, body, t)
            elif t['k'] == 'return':
                for k, v in st.items():
                    if not isinstance(k[0], int) or not isinstance(v, Iv):
                        continue
                    if k[0] == 0:
                        kk = ('ret',) + k[1:]
                        ret[kk] = ret[kk].join(v) if kk in ret else v
                    elif 1 <= k[0] <= body.arg_count and len(k) > 1 and body.local_ty(k[0]).startswith('&mut '):
                        kk = ('out', k[0]) + k[1:]
                        ret[kk] = ret[kk].join(v) if kk in ret else v
            else:
                succs = [(s2, st) for s2 in body.succs(b)]
            for (s2, st2) in succs:
                if body.blocks[s2]['cleanup']:
                    continue
                old = states.get(s2)
                if old is None:
                    states[s2] = dict(st2)
                    work.append(s2)
                    continue
                new = dict(old)
                changed = False
                for k, v in st2.items():
                    if not isinstance(v, Iv) or (k in new and not isinstance(new[k], Iv)):
                        if k not in new:
                            new[k] = v
                            changed = True
                        continue
                    if k in new:
                        j = new[k].join(v)
                        if s2 in loop_heads and visits.get(s2, 0) >= 3 and j != new[k]:
                            j = Iv(-INF if j.lo < new[k].lo else j.lo, INF if j.hi > new[k].hi else j.hi, j.nan)
                        if j != new[k]:
                            new[k] = j
                            changed = True
                    else:
                        # defined on one path only: keep it (uses are dominated by definitions in MIR)
                        new[k] = v
                        changed = True
                if changed:
                    states[s2] = new
                    if s2 not in work:
                        work.append(s2)
        return ret

    def _assign(self, st, body, s):
        pl, rv = s['place'], s['rv']
        k = self._key(pl)
        kind = rv['k']
        v = None
        # what is overwritten is no longer what its copies were taken from
        for ak in [a for a in st if a and a[0] == 'alias' and isinstance(st[a], tuple) and st[a][:len(k)] == k]:
            del st[ak]
        if kind == 'use':
            o = rv['op']
            src = o.get('copy') or o.get('move')
            if src is not None:
                sk = self._key(src)
                # struct copy: carry tracked fields over
                moved = False
                for kk in list(st.keys()):
                    if kk[:len(sk)] == sk and len(kk) > len(sk):
                        st[k + kk[len(sk):]] = st[kk]
                        if isinstance(st[kk], Iv):
                            st[('alias',) + k + kk[len(sk):]] = kk      # a later comparison on the copy refines the original too
                        moved = True
                if moved and sk not in st:
                    return
            v = self._op(st, body, o)
            if src is not None and isinstance(v, Iv):
                # remember where this scalar was copied from, so that a later comparison refines the source too
                st[('alias',) + k] = self._key(src)
        elif kind == 'binop':
            a, b = self._op(st, body, rv['a']), self._op(st, body, rv['b'])
            op = rv['op']
            if op == 'Add':
                v = add(a, b)
            elif op == 'Sub':
                v = sub(a, b)
            elif op == 'Mul':
                v = mul(a, b)
                ka, kb = self._src_key(st, rv['a']), self._src_key(st, rv['b'])
                if ka is not None and ka == kb:
                    v = powi(a, 2)          # both operands are copies of one place: a square
                if getattr(self, 'observe_mul', None) is not None:
                    self.observe_mul(body, s, a, b)
            elif op == 'Div':
                v = div(a, b)
            elif op in ('Lt', 'Le', 'Gt', 'Ge', 'Eq', 'Ne'):
                st[k] = ('cmp', op, rv['a'], rv['b'])
                return
            elif op == 'Rem':
                # a % m has the sign of a and magnitude below |m|
                mm = max(abs(b.lo), abs(b.hi))
                nanr = a.nan or b.nan or abs(a.lo) == INF or abs(a.hi) == INF or (b.lo <= 0 <= b.hi)
                v = Iv(-mm if a.lo < 0 else 0.0, mm if a.hi > 0 else 0.0, nanr)
            else:
                v = TOP
        elif kind == 'unop':
            a = self._op(st, body, rv['a'])
            if rv['op'] == 'Neg':
                v = neg(a)
            elif rv['op'] == 'Not':
                prev = st.get(self._key((rv['a'].get('copy') or rv['a'].get('move'))), None) if ('copy' in rv['a'] or 'move' in rv['a']) else None
                if isinstance(prev, tuple) and prev[0] == 'cmp':
                    inv = {'Lt': 'Ge', 'Le': 'Gt', 'Gt': 'Le', 'Ge': 'Lt', 'Eq': 'Ne', 'Ne': 'Eq'}[prev[1]]
                    st[k] = ('cmpn', inv, prev[2], prev[3])
                return
            else:
                v = TOP
        elif kind == 'cast':
            a = self._op(st, body, rv['op'])
            v = a if isinstance(a, Iv) else TOP
        elif kind == 'agg':
            if rv['agg'] in ('adt', 'tuple'):
                names = rv.get('field_names', []) if rv['agg'] == 'adt' else []
                for i, f in enumerate(rv['fields']):
                    fname = names[i] if i < len(names) else str(i)
                    src = f.get('copy') or f.get('move')
                    nested = False
                    if src is not None:
                        sk = self._key(src)
                        for kk in list(st.keys()):
                            if kk[:len(sk)] == sk and len(kk) > len(sk) and isinstance(st[kk], Iv):
                                st[k + (fname,) + kk[len(sk):]] = st[kk]
                                st[('alias',) + k + (fname,) + kk[len(sk):]] = kk
                                nested = True
                    if nested:
                        continue
                    fv = self._op(st, body, f)
                    if isinstance(fv, Iv):
                        st[k + (fname,)] = fv
                        if src is not None:
                            st[('alias',) + k + (fname,)] = self._key(src)
            return
        elif kind in ('ref', 'rawptr'):
            # a reference to a tracked scalar: alias its interval
            sk = self._key(rv['place'])
            if sk in st:
                st[k] = st[sk]
            return
        else:
            return
        if isinstance(v, Iv):
            st[k] = v
        elif isinstance(v, tuple):
            st[k] = v

    def _switch(self, st, body, t):
        force = getattr(self, 'force', None)
        if force and force.get('body') is body and force.get('block') == getattr(self, '_cur_block', None):
            # boundary evaluation: take one edge only, with the compared value pinned to the threshold
            st2 = dict(st)
            k = force['key']
            st2[k] = force['iv']
            src = st2.get(('alias',) + k)
            n = 0
            while isinstance(src, tuple) and n < 4:
                st2[src] = force['iv']
                src = st2.get(('alias',) + src)
                n += 1
            return [(force['target'], st2)]
        pl = t['discr'].get('copy') or t['discr'].get('move')
        out = []
        tm = {v: tg for v, tg in t['targets']}
        info = st.get(self._key(pl)) if pl is not None else None
        if isinstance(info, tuple) and info[0] in ('cmp', 'cmpn') and set(tm.keys()) == {'0'}:
            op, a, b = info[1], info[2], info[3]
            st_t, st_f = dict(st), dict(st)
            self._refine(st_t, body, op, a, b)
            self._refine(st_f, body, {'Lt': 'Ge', 'Le': 'Gt', 'Gt': 'Le', 'Ge': 'Lt', 'Eq': 'Ne', 'Ne': 'Eq'}[op], a, b)
            return [(t['otherwise'], st_t), (tm['0'], st_f)]
        seen = []
        for s2 in [x[1] for x in t['targets']] + [t['otherwise']]:
            if s2 not in seen:
                seen.append(s2)
                out.append((s2, st))
        return out

    def _refine(self, st, body, op, a, b):
        av, bv = self._op(st, body, a), self._op(st, body, b)
        if not isinstance(av, Iv) or not isinstance(bv, Iv):
            return
        apl = a.get('copy') or a.get('move')
        bpl = b.get('copy') or b.get('move')
        # a comparison that holds excludes NaN on both sides (except Ne)
        def put(pl, val):
            if pl is None:
                return
            k = self._key(pl)
            st[k] = val
            src = st.get(('alias',) + k)
            seen = 0
            while isinstance(src, tuple) and seen < 10:
                if isinstance(st.get(src), Iv) or src not in st:
                    st[src] = val
                src = st.get(('alias',) + src)
                seen += 1
        if op in ('Lt', 'Le'):
            put(apl, Iv(av.lo, min(av.hi, bv.hi), False))
            put(bpl, Iv(max(bv.lo, av.lo), bv.hi, False))
        elif op in ('Gt', 'Ge'):
            put(apl, Iv(max(av.lo, bv.lo), av.hi, False))
            put(bpl, Iv(bv.lo, min(bv.hi, av.hi), False))

    def _call(self, st, body, fn, b, t, depth):
        f = t['func']
        p = f.get('path', '')
        d = self._key(t['dest'])
        args = [self._op(st, body, a) for a in t['args']]
        iv = [a if isinstance(a, Iv) else TOP for a in args]
        v = None
        name = p.rsplit('::', 1)[-1]
        if p.startswith(F64_PREFIX):
            if name == 'abs':
                v = absv(iv[0])
            elif name == 'sqrt':
                v = sqrt(iv[0])
            elif name == 'powi':
                n = self._const(t['args'][1]['const']) if 'const' in t['args'][1] else None
                v = powi(iv[0], int(n.lo) if n is not None else None)
            elif name == 'min':
                v = fmin(iv[0], iv[1])
            elif name == 'max':
                v = fmax(iv[0], iv[1])
            elif name == 'clamp':
                v = Iv(max(iv[0].lo, iv[1].lo), min(iv[0].hi, iv[2].hi), iv[0].nan)
            elif name == 'acos':
                v = acos(iv[0])
            elif name in ('sin', 'cos'):
                v = sincos(iv[0])
            elif name == 'rem_euclid':
                v = rem_euclid(iv[0], iv[1])
            elif name in ('ceil', 'floor', 'round', 'trunc'):
                v = Iv(math.floor(iv[0].lo) if abs(iv[0].lo) != INF else iv[0].lo,
                       math.ceil(iv[0].hi) if abs(iv[0].hi) != INF else iv[0].hi, iv[0].nan)
            elif name in ('is_finite', 'is_nan', 'is_infinite', 'is_sign_negative', 'is_sign_positive', 'partial_cmp', 'total_cmp'):
                return
            elif name == 'atan2':
                v = Iv(-PI, PI, iv[0].nan or iv[1].nan)
            elif name == 'atan':
                v = Iv(-PI / 2, PI / 2, iv[0].nan)
            elif name == 'asin':
                v = Iv(-PI / 2, PI / 2, iv[0].nan or iv[0].lo < -1 or iv[0].hi > 1)
            elif name == 'signum':
                v = Iv(-1.0, 1.0, iv[0].nan)
            elif name == 'hypot':
                v = Iv(0.0, INF, iv[0].nan or iv[1].nan)
            elif name == 'mul_add':
                v = add(mul(iv[0], iv[1]), iv[2])
            elif name == 'copysign':
                m_ = absv(iv[0])
                v = Iv(-m_.hi, m_.hi, iv[0].nan)
            elif name in ('to_radians', 'to_degrees'):
                f_ = PI / 180.0 if name == 'to_radians' else 180.0 / PI
                v = mul(iv[0], const(f_))
            elif name == 'exp':
                v = Iv(0.0, INF, iv[0].nan)
            elif name == 'recip':
                v = div(const(1.0), iv[0])
            elif name == 'powf':
                v = Iv(-INF, INF, True)
            else:
                v = TOP
        elif p in ('std::ops::Sub::sub', 'std::ops::Add::add', 'std::ops::Mul::mul', 'std::ops::Div::div') and 'f64' in (f.get('self_ty') or ''):
            v = {'sub': sub, 'add': add, 'mul': mul, 'div': div}[name](iv[0], iv[1])
        elif p == 'std::ops::Neg::neg' and 'f64' in (f.get('self_ty') or ''):
            v = neg(iv[0])
        elif p == 'std::iter::Iterator::sum':
            # sum over map(closure): analyse the closure with unknown inputs
            terms = fn.arg_terms(t, 0, b)
            r = None
            for n in terms:
                if n[0] == 'call' and n[1] == 'std::iter::Iterator::map':
                    for c in n[2][1]:
                        if c[0] == 'closure':
                            cb = self.crate.body(c[1])
                            if cb is not None and depth < self.max_depth:
                                rr = self.analyze(cb, depth=depth + 1).get(('ret',))
                                r = rr if r is None else (r.join(rr) if rr is not None else r)
            if r is None:
                v = TOP
            elif r.lo >= 0:
                v = Iv(0.0, INF, r.nan)
            else:
                v = Iv(-INF, INF, True)
        elif p in ('std::clone::Clone::clone', 'std::ops::Deref::deref', 'std::convert::Into::into', 'std::convert::From::from'):
            src = t['args'][0].get('copy') or t['args'][0].get('move')
            if src is not None:
                sk = self._key(src)
                for kk in list(st.keys()):
                    if kk[:len(sk)] == sk:
                        st[d + kk[len(sk):]] = st[kk]
            return
        else:
            tgt = self.crate.body(f.get('resolved', {}).get('path') or p)
            if tgt is None and f.get('trait'):
                # unresolved trait call (e.g. self.distance on a concrete impl in the same impl block)
                cands = self.ctx.trait_impl_bodies(self.crate, f['trait'], f.get('name'))
                same = [c for c in cands if c.j.get('impl_adt') and c.j.get('impl_adt') == body.j.get('impl_adt')]
                tgt = same[0] if same else None
            if tgt is not None and depth < self.max_depth:
                key = tgt.path
                if key not in self._ret_cache:
                    self._ret_cache[key] = None
                    self._ret_cache[key] = self.analyze(tgt, depth=depth + 1)
                r = self._ret_cache[key]
                if r is None:
                    st[d] = TOP
                    return
                for kk, vv in r.items():
                    if kk[0] == 'ret':
                        st[d + kk[1:]] = vv
                    elif kk[0] == 'out':
                        # stores through the callee's &mut parameter: map onto the actual
                        ai = kk[1] - 1
                        if ai < len(t['args']):
                            apl = t['args'][ai].get('copy') or t['args'][ai].get('move')
                            if apl is not None:
                                root = fn.borrow_root(apl['l'])
                                if root is not None:
                                    st[(root[0],) + tuple(root[1]) + kk[2:]] = vv
                                else:
                                    st[(apl['l'],) + kk[2:]] = vv
                if ('ret',) not in r and tgt.j.get('ret_ty') == 'f64':
                    st[d] = TOP
                return
            if body.local_ty(t['dest']['l']) == 'f64' and not t['dest']['p']:
                # unknown external f64 (e.g. a trait call on a type parameter): an input
                v = TOP if not p.endswith('_dyn') and 'StateSpace' not in p else self.input
            else:
                return
        if v is not None:
            st[d] = v
