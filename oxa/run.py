"""./check <Cxx> [--tier quick|thorough]  — entry point of every registered check.

Decides the property's structural clauses from /repo's current source via MIR facts (static
analysis only: no planner code, test, fuzzer or solver is run)."""
import argparse
import importlib
import json
import os
import sys
import time
import traceback

from . import extract
from .core import Ctx, Violation, RuleResult

VERIF = extract.VERIF
KNOWN = os.path.join(VERIF, 'known_findings.json')
EVID = os.environ.get('OXA_EVIDENCE_DIR') or os.path.join(VERIF, 'evidence')

PROPS = ['C01', 'C02', 'C03', 'C04', 'C05', 'C06', 'C07', 'C08', 'C09', 'C10', 'C11', 'C12', 'C13', 'C14', 'C15', 'C16', 'C17', 'C18',
         'C19', 'C20']


def load_known():
    if not os.path.exists(KNOWN):
        return {}, []
    with open(KNOWN) as fh:
        j = json.load(fh)
    return {f['key']: f for f in j.get('findings', [])}, j.get('fixed', [])


def _collapse_copies(results):
    """the decision-split view holds several copies of the same source site: reports that agree in rule, function, kind and
    source location are one report; ordinals are renumbered so that keys stay comparable with the recorded findings"""
    for r in results:
        seen = set()
        kept = []
        for v in r.violations:
            k = (v.rule, v.fn, v.what, v.loc, v.msg)
            if k in seen:
                continue
            seen.add(k)
            kept.append(v)
        counters = {}
        ordered = {}
        for v in kept:
            ordered.setdefault((v.rule, v.fn, v.what), []).append(v)
        for grp in ordered.values():
            if len({v.ordinal for v in grp}) != len(grp) or len(grp) > 1:
                for i, v in enumerate(sorted(grp, key=lambda x: x.ordinal)):
                    v.ordinal = i
        r.violations = kept


def main(argv=None):
    ap = argparse.ArgumentParser()
    ap.add_argument('prop')
    ap.add_argument('--tier', default=os.environ.get('VERIF_TIER', 'quick'), choices=['quick', 'thorough'])
    ap.add_argument('--explain', default=None)
    ap.add_argument('--facts', default=None, help='use an existing facts directory (debugging)')
    ap.add_argument('-v', action='store_true')
    a = ap.parse_args(argv)
    prop = a.prop.upper()
    t0 = time.time()
    seed = int(os.environ.get('VERIF_SEED', '0') or 0)
    os.makedirs(os.path.join(EVID, 'replay'), exist_ok=True)
    evid_path = os.path.join(EVID, prop + '.json')
    results = []
    violations = []
    info = {}
    fact_hash = None
    mod = None
    try:
        mod = importlib.import_module('oxa.rules.' + prop.lower())
    except ImportError as e:
        print('no rule module for %s: %s' % (prop, e))
        return 2
    try:
        if a.facts:
            facts_dir, fact_hash, info = a.facts, 'manual', {'cached': True}
        else:
            facts_dir, fact_hash, info = extract.extract()
        ctx = Ctx(facts_dir)
        ctx.tier = a.tier
        fv = os.environ.get('OXA_FORCE_VIEW')          # debugging aid: '2' / '3' analyse the inlined (/ decision-split) view directly
        if fv in ('2', '3'):
            ctx_f = ctx.inlined_view(split=(fv == '3'))
            if ctx_f is not None:
                ctx = ctx_f
                ctx.tier = a.tier
        results = mod.run(ctx, a.tier)
        if fv == '3':
            _collapse_copies(results)
        # second view: when the rules report something new and the tree has private helper functions outside the
        # vocabulary the rules summarise, analyse those helpers in the context of their callers (inlined).  Both
        # views are complete analyses of the property (every private helper is analysed at each of its call sites),
        # so the property is decided by whichever view discharges every obligation.
        known0, _fx = load_known()
        if any(not (v.key in known0 and known0[v.key].get('property') == prop) for r in results for v in r.violations):
            decided = False
            for vname, split in (('inlined', False), ('inlined + decision-split', True)):
                try:
                    ctx2 = ctx.inlined_view(split=split)
                except Exception:
                    traceback.print_exc()
                    ctx2 = None
                if ctx2 is None:
                    continue
                try:
                    results2 = mod.run(ctx2, a.tier)
                except Exception:
                    traceback.print_exc()
                    results2 = None
                if results2 is not None and split:
                    _collapse_copies(results2)
                if results2 is not None and not any(not (v.key in known0 and known0[v.key].get('property') == prop)
                                                    for r in results2 for v in r.violations):
                    n1 = sum(len(r.violations) for r in results)
                    results = results2
                    view_note = 'decided in the %s view (%d report(s) of the per-function view discharged in context); transformations: %s' % (
                        vname, n1, ', '.join(ctx2.inlined_used))
                    results[0].notes.append(view_note)
                    ctx = ctx2
                    decided = True
                    break
                if a.v or os.environ.get('OXA_DEBUG_VIEW'):
                    for rr in (results2 or []):
                        for v in rr.violations:
                            print('   [%s view] %s: %s [%s] at %s' % (vname, v.rule, v.msg, v.fn, v.loc))
                results[0].notes.append('%s view (%s) also reports violations' % (vname, ', '.join(ctx2.inlined_used)))
            if not decided:
                from . import planner as _planner
                _planner.set_ctx(ctx)
        if a.tier == 'thorough':
            from . import thorough
            results = results + thorough.run(ctx, prop, mod)
    except Exception as e:  # fail closed
        traceback.print_exc()
        r = RuleResult(prop + '.machinery', 'the checker itself must run to completion')
        r.violations.append(Violation(prop, prop + '.machinery', 'checker', type(e).__name__,
                                      'checker failed (fail closed): %s' % e))
        results = results + [r]
    for r in results:
        violations.extend(r.violations)

    known, fixed = load_known()
    n_inst = sum(len(r.instances) for r in results)
    n_ok = sum(1 for r in results for i in r.instances if i['ok'] and not i.get('undecided'))
    n_undec = sum(1 for r in results for i in r.instances if i.get('undecided'))
    distinct_nontrivial = len({(i['rule'], i['desc']) for r in results for i in r.instances if i.get('nontrivial')})
    print('[%s] tier=%s facts=%s (%s) bodies=%s' % (prop, a.tier, fact_hash,
                                                  'cached' if info.get('cached') else 'extracted in %.1fs' % info.get('seconds', 0),
                                                  ctx.facts.total_bodies() if 'ctx' in dir() else '?'))
    for r in results:
        print('  rule %-22s instances=%-3d violations=%-2d %s' % (
            r.rule, len(r.instances), len(r.violations), r.clause))
        if a.v:
            for i in r.instances:
                print('      %s %s' % ('?? ' if i.get('undecided') else 'ok ' if i['ok'] else 'BAD', i['desc']))
        for n in r.notes:
            print('      note: ' + n)
    new = []
    matched = []
    for v in violations:
        if v.key in known and known[v.key].get('property') == prop:
            matched.append(v)
            print('KNOWN-FINDING: property=%s %s %s: %s' % (prop, v.rule, v.fn, known[v.key].get('what', v.msg)))
        else:
            new.append(v)
    stale = [k for k, f in known.items() if f.get('property') == prop and k not in {v.key for v in violations}]
    for k in stale:
        print('  note: known finding no longer reproduced (fixed?): %s' % k)
    exit_code = 0
    import glob as _glob
    for old in _glob.glob(os.path.join(EVID, 'replay', '%s-*.json' % prop)):
        os.remove(old)
    for n, v in enumerate(new):
        rp = os.path.join(EVID, 'replay', '%s-%d.json' % (prop, n))
        with open(rp, 'w') as fh:
            json.dump(v.to_json(), fh, indent=1)
        print('  %s: %s  [%s] at %s' % (v.rule, v.msg, v.fn, v.loc))
        print('VIOLATION property=%s replay=%s' % (prop, rp))
        exit_code = 1

    meta = getattr(mod, 'META', {})
    samples = []
    for r in results:
        for i in r.instances[:3]:
            samples.append({k: i[k] for k in i if k in ('rule', 'desc', 'ok', 'site', 'guard', 'terms')})
    per_rule = {r.rule: {'instances': len(r.instances), 'violations': len(r.violations), 'clause': r.clause,
                         'undecided': [i['desc'] for i in r.instances if i.get('undecided')],
                         'floor': r.floor} for r in results}
    ev = {
        'property_id': prop,
        'tier': a.tier,
        'seed': seed,
        'level': 'other',
        'coverage': {
            'explanation': meta.get('explanation', '') + ' Deciding step: static rules over rustc MIR facts '
                           'extracted from /repo\'s current working tree on this run; no code of /repo is executed.',
            'obligations': n_inst,
            'discharged': n_ok,
            'undecided': n_undec,
            'evaluations': max(n_inst, 1),
            'distinct_nontrivial': distinct_nontrivial,
            'rule': 'one obligation per rule instance discovered from the MIR facts (call sites, container '
                    'writes, loops, constructors, impls); non-trivial = decided by a guard/origin/loop argument '
                    'rather than by a table lookup; distinct by (rule, site description)',
            'samples': samples[:12] or [{'note': 'no instances'}],
            'checker_cmd': './check %s --tier %s' % (prop, a.tier),
            'trusted_base': ['rustc nightly MIR construction and type checking', 'mirfacts serialisation',
                             'oxa shared analyses (reachability, reaching definitions, origin terms)'],
            'per_rule': per_rule,
            'crates': sorted({c[0] for c in ctx.facts.crates}) if 'ctx' in dir() else [],
            'fact_files': len(ctx.facts.files) if 'ctx' in dir() else 0,
            'bodies': ctx.facts.total_bodies() if 'ctx' in dir() else 0,
            'fact_hash': fact_hash,
            'known_findings_matched': [v.key for v in matched],
            'new_violations': [v.key for v in new],
            'exhaustive': True,
        },
        'assumptions': meta.get('assumptions', []),
        'wall_s': round(time.time() - t0, 3),
        'violations': len(new),
    }
    with open(evid_path, 'w') as fh:
        json.dump(ev, fh, indent=1)
    print('[%s] obligations=%d discharged=%d%s known=%d new=%d wall=%.2fs' % (
        prop, n_inst, n_ok, ' undecided=%d' % n_undec if n_undec else '', len(matched), len(new), time.time() - t0))
    return exit_code


if __name__ == '__main__':
    sys.exit(main())
