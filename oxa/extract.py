"""Fact extraction: hash /repo's working tree, (re)run the mirfacts driver under cargo +nightly check,
cache facts under /verif/.cache/facts/<hash>.  Nothing is kept under /tmp."""
import fcntl
import glob
import hashlib
import os
import shutil
import subprocess
import sys
import time

VERIF = os.path.dirname(os.path.dirname(os.path.abspath(__file__)))
REPO = os.environ.get('OXA_REPO', '/repo')
CACHE = os.environ.get('OXA_CACHE') or os.path.join(VERIF, '.cache')
DRIVER_DIR = os.path.join(VERIF, 'mirfacts')
DRIVER = os.path.join(DRIVER_DIR, 'target', 'debug', 'mirfacts')
TARGET = os.path.join(CACHE, 'target')

# crates every full extraction must produce (crate, kind); fail closed when one is missing
EXPECTED_FULL = [('oxmpl', 'main'), ('oxmpl', 'test'), ('oxmpl_py', 'main'), ('oxmpl_js', 'main')]
EXPECTED_MIN_FILES = 30


def sh(cmd, **kw):
    return subprocess.run(cmd, stdout=subprocess.PIPE, stderr=subprocess.STDOUT, text=True, **kw)


def nightly_sysroot():
    r = sh(['rustc', '+nightly', '--print', 'sysroot'])
    return r.stdout.strip()


def repo_files(repo=REPO):
    r = subprocess.run(['git', '-C', repo, 'ls-files', '-co', '--exclude-standard'],
                       stdout=subprocess.PIPE, text=True)
    files = []
    for f in r.stdout.splitlines():
        if f.startswith('target/') or f.startswith('docs/book') or '/node_modules/' in f:
            continue
        if f.endswith('.rs') or f.endswith('.toml') or f.endswith('.lock') or f.endswith('build.rs'):
            files.append(f)
    return sorted(set(files))


def tree_hash(repo=REPO):
    h = hashlib.sha256()
    for f in repo_files(repo):
        p = os.path.join(repo, f)
        if not os.path.isfile(p):
            continue
        h.update(f.encode() + b'\0')
        with open(p, 'rb') as fh:
            h.update(hashlib.sha256(fh.read()).digest())
    # the driver's own source is part of the key
    for f in sorted(glob.glob(os.path.join(DRIVER_DIR, 'src', '*.rs'))):
        with open(f, 'rb') as fh:
            h.update(hashlib.sha256(fh.read()).digest())
    return h.hexdigest()[:24]


def ensure_driver(log):
    srcs = glob.glob(os.path.join(DRIVER_DIR, 'src', '*.rs')) + [os.path.join(DRIVER_DIR, 'Cargo.toml')]
    if os.path.exists(DRIVER) and all(os.path.getmtime(DRIVER) >= os.path.getmtime(s) for s in srcs):
        return
    log('building mirfacts driver')
    env = dict(os.environ, CARGO_NET_OFFLINE='true')
    r = sh(['cargo', '+nightly', 'build', '--offline'], cwd=DRIVER_DIR, env=env)
    if r.returncode != 0 or not os.path.exists(DRIVER):
        raise RuntimeError('mirfacts driver build failed:\n' + r.stdout[-4000:])


def extract(repo=REPO, log=lambda m: print('[extract] ' + m, file=sys.stderr)):
    """returns (facts_dir, hash, info dict).  Raises RuntimeError when extraction fails."""
    os.makedirs(os.path.join(CACHE, 'facts'), exist_ok=True)
    lock = open(os.path.join(CACHE, 'extract.lock'), 'w')
    fcntl.flock(lock, fcntl.LOCK_EX)
    try:
        h = tree_hash(repo)
        out = os.path.join(CACHE, 'facts', h)
        ok = os.path.join(out, 'OK')
        if os.path.exists(ok):
            try:
                os.utime(out, None)          # mark as in use (eviction below spares recently used directories)
            except OSError:
                pass
            return out, h, {'cached': True}
        ensure_driver(log)
        if os.path.exists(out):
            shutil.rmtree(out)
        os.makedirs(out)
        os.makedirs(TARGET, exist_ok=True)
        # cargo's freshness cache would skip the wrapper for unchanged members: drop their fingerprints
        for prof in ('debug',):
            fp = os.path.join(TARGET, prof, '.fingerprint')
            if os.path.isdir(fp):
                for d in os.listdir(fp):
                    if d.startswith('oxmpl'):
                        shutil.rmtree(os.path.join(fp, d), ignore_errors=True)
        env = dict(os.environ)
        env.update({
            'LD_LIBRARY_PATH': os.path.join(nightly_sysroot(), 'lib') + ':' + env.get('LD_LIBRARY_PATH', ''),
            'RUSTFLAGS': '-Zmir-opt-level=0 -Awarnings',
            'RUSTC_WORKSPACE_WRAPPER': DRIVER,
            'MIRFACTS_OUT': out,
            'CARGO_TARGET_DIR': TARGET,
            'CARGO_NET_OFFLINE': 'true',
            'RUSTC_ICE': '0',
        })
        t0 = time.time()
        log('running mirfacts over the workspace (all targets)')
        r = sh(['cargo', '+nightly', 'check', '--offline', '--workspace', '--all-targets'], cwd=repo, env=env)
        dt = time.time() - t0
        for f in glob.glob(os.path.join(repo, 'rustc-ice-*.txt')):
            os.remove(f)
        if r.returncode != 0:
            shutil.rmtree(out, ignore_errors=True)
            raise RuntimeError('cargo check under mirfacts failed (does /repo compile?):\n' + r.stdout[-6000:])
        files = glob.glob(os.path.join(out, '*.json'))
        have = set()
        for f in files:
            base = os.path.basename(f)
            parts = base.rsplit('-', 2)
            have.add((parts[0], parts[1]))
        missing = [e for e in EXPECTED_FULL if e not in have]
        if missing or len(files) < EXPECTED_MIN_FILES:
            shutil.rmtree(out, ignore_errors=True)
            raise RuntimeError('mirfacts produced %d fact files, missing %r (cargo skipped the wrapper?)'
                               % (len(files), missing))
        with open(ok, 'w') as fh:
            fh.write('%d files in %.1fs\n' % (len(files), dt))
        # keep the cache small: retain the 16 most recent fact dirs
        # (never one used in the last half hour: another check may be reading it right now)
        dirs = sorted(glob.glob(os.path.join(CACHE, 'facts', '*')), key=os.path.getmtime)
        now = time.time()
        for d in dirs[:-16]:
            if now - os.path.getmtime(d) > 1800:
                shutil.rmtree(d, ignore_errors=True)
        return out, h, {'cached': False, 'seconds': dt, 'files': len(files)}
    finally:
        fcntl.flock(lock, fcntl.LOCK_UN)
        lock.close()


if __name__ == '__main__':
    d, h, info = extract()
    print(d, h, info)
