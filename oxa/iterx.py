"""Expansion of lazy iterator pipelines into the loops they denote (part of the inlined view).

    for x in SRC.filter(F).map(M) { .. }        let v: Vec<_> = SRC.filter(F).map(M).collect();
    helper(SRC.map(M))  with  fn helper(it: impl Iterator) { for (i, v) in it.enumerate() { .. } }   (after inlining)

The closures of `map` / `filter` run inside `Iterator::next`, which MIR does not show; rules that look for "the
component call", "the radius test guarding this push" would see nothing.  Here every `next(&mut X)` whose iterator X is
(through `into_iter`, `enumerate`) a `map` / `filter` over something is replaced by pulling from the innermost source
and running the closure bodies in line:

    pull(source L)          r = &mut L; o = next(r); match o { None => NONE, Some(e) => CONT(e) }
    pull(map(A, M))         pull(A) with CONT(e) := { y = M(e); CONT(y) }
    pull(filter(A, F))      pull(A) with CONT(e) := { if F(&e) { CONT(e) } else { restart the whole pull } }
    pull(enumerate(A))      pull(A) with CONT(e) := { t = (c, e); c += 1; CONT(t) }        (c = 0 where enumerate was created)
    NONE                    opt = None;    goto the original target of the next() call
    final CONT(e)           opt = Some(e); goto the original target

and `collect()` into a Vec is first written as `list = Vec::new(); loop { match next() { None => break, Some(y) =>
list.push(y) } }`.  Documented std semantics of the adaptors; closure bodies are inlined with inline_once."""
import copy

from .facts import Body
from .inline import inline_once, _closure_of

MAP = 'std::iter::Iterator::map'
FILTER = 'std::iter::Iterator::filter'
FILTER_MAP = 'std::iter::Iterator::filter_map'
ENUM = 'std::iter::Iterator::enumerate'
INTO = 'std::iter::IntoIterator::into_iter'
NEXT = 'std::iter::Iterator::next'
COLLECT = 'std::iter::Iterator::collect'
BYREF = 'std::iter::Iterator::by_ref'


def _plain(op):
    pl = op.get('move') or op.get('copy')
    return pl['l'] if pl is not None and not pl['p'] else None


def _nodes(body, crate):
    """local -> ('map'|'filter', inner local, closure path, closure local, block) | ('enumerate'|'id', inner local, block)"""
    out = {}
    ndefs = {}
    for blk in body.blocks:
        if blk['cleanup']:
            continue
        for st in blk['stmts']:
            if st['k'] == 'assign' and not st['place']['p']:
                ndefs[st['place']['l']] = ndefs.get(st['place']['l'], 0) + 1
        t = blk['term']
        if t['k'] == 'call' and not t['dest']['p']:
            ndefs[t['dest']['l']] = ndefs.get(t['dest']['l'], 0) + 1
    # plain moves of an iterator value (argument passing of an inlined helper, `let it = chain;`)
    for bi, blk in enumerate(body.blocks):
        if blk['cleanup']:
            continue
        for st in blk['stmts']:
            if st['k'] == 'assign' and not st['place']['p'] and st['rv']['k'] == 'use' and ndefs.get(st['place']['l'], 0) == 1:
                a = _plain(st['rv']['op'])
                if a is not None and 'move' in st['rv']['op']:
                    out[st['place']['l']] = ('id', a, None)
    for bi, t in body.calls():
        if t['dest']['p'] or ndefs.get(t['dest']['l'], 0) != 1 or t['target'] is None:
            continue
        p = t['func'].get('path')
        d = t['dest']['l']
        if p in (MAP, FILTER, FILTER_MAP) and len(t['args']) == 2:
            a, c = _plain(t['args'][0]), _plain(t['args'][1])
            cp = _closure_of(body, c) if c is not None else None
            cb = crate.body(cp) if cp else None
            if a is not None and cb is not None and cb.arg_count == 2:
                out[d] = ({MAP: 'map', FILTER: 'filter', FILTER_MAP: 'filter_map'}[p], a, cp, c, bi)
        elif p == ENUM and len(t['args']) == 1:
            a = _plain(t['args'][0])
            if a is not None:
                out[d] = ('enumerate', a, bi)
        elif p == INTO and len(t['args']) == 1:
            a = _plain(t['args'][0])
            if a is not None:
                out[d] = ('id', a, bi)
    return out


def _lazy(nodes, l, depth=0):
    n = nodes.get(l)
    if n is None or depth > 8:
        return False
    if n[0] in ('map', 'filter', 'filter_map'):
        return True
    return _lazy(nodes, n[1], depth + 1)


def _generator_source(body, nodes, l):
    """the innermost source of the chain is a generator (`successors`, `from_fn`): nothing is gained by writing the
    collection out as a loop over an opaque next(), and the rules that know the lazy walk lose its shape"""
    for _ in range(8):
        n = nodes.get(l)
        if n is None:
            break
        l = n[1]
    for blk in body.blocks:
        t = blk['term']
        if not blk['cleanup'] and t['k'] == 'call' and t['dest'] == {'l': l, 'p': []}:
            return (t['func'].get('path') or '') in ('std::iter::successors', 'std::iter::from_fn')
    return False


def _ref_target(body, bi, local):
    """the place X when `local = &mut X` is assigned in block bi"""
    for _ in range(3):
        nxt = None
        for st in body.blocks[bi]['stmts']:
            if st['k'] == 'assign' and st['place']['l'] == local and not st['place']['p'] and st['rv']['k'] == 'ref':
                rp = st['rv']['place']
                if not rp['p']:
                    return rp['l']
                if rp['p'] == ['deref']:
                    nxt = rp['l']          # a reborrow `&mut *r`
        if nxt is None:
            return None
        local = nxt
    return None


class _Gen:
    def __init__(self, body, crate, nodes):
        self.j = copy.deepcopy(body.j)
        self.crate = crate
        self.nodes = nodes
        self.body = body
        self.to_inline = []          # (block index, closure Body)
        self.counters = {}           # enumerate dest local -> counter local
        self.neutralised = set()

    def new_local(self, ty):
        self.j['locals'].append({'ty': ty, 'name': None, 'mut': True})
        return len(self.j['locals']) - 1

    def new_block(self, span):
        self.j['blocks'].append({'stmts': [], 'term': {'k': 'unreachable'}, 'tspan': span, 'cleanup': False})
        return len(self.j['blocks']) - 1

    def assign(self, b, l, rv, span):
        self.j['blocks'][b]['stmts'].append({'k': 'assign', 'place': {'l': l, 'p': []}, 'rv': rv, 'span': span})

    def neutralise(self, bi):
        """an adaptor-creating call becomes a plain jump (its value is never used again)"""
        if bi in self.neutralised:
            return
        self.neutralised.add(bi)
        t = self.j['blocks'][bi]['term']
        self.j['blocks'][bi]['term'] = {'k': 'goto', 'target': t['target']}

    def pull(self, l, span, restart, none_blk, cont, depth=0):
        """emit blocks that pull one element from iterator local `l`; returns the entry block.
        cont(block, elem local, elem ty) continues in `block` with the element; none_blk is jumped to on exhaustion"""
        n = self.nodes.get(l) if depth < 8 else None
        if n is not None and n[0] == 'id':
            if n[2] is not None:
                self.neutralise(n[2])
            return self.pull(n[1], span, restart, none_blk, cont, depth + 1)
        if n is not None and n[0] == 'enumerate' and _lazy(self.nodes, n[1]):
            c = self.counters.get(l)
            if c is None:
                c = self.new_local('usize')
                self.counters[l] = c
                # initialise where enumerate() was called
                cb = n[2]
                t = self.j['blocks'][cb]['term']
                self.j['blocks'][cb]['stmts'].append({'k': 'assign', 'place': {'l': c, 'p': []},
                                                      'rv': {'k': 'use', 'op': {'const': {'ty': 'usize', 'bits': '0', 'ival': '0', 'dbg': '0_usize'}}},
                                                      'span': self.j['blocks'][cb]['tspan']})
                self.neutralise(cb)

            def k(b, e, ety, c=c):
                tl = self.new_local('(usize, %s)' % ety)
                self.assign(b, tl, {'k': 'agg', 'agg': 'tuple', 'fields': [{'copy': {'l': c, 'p': []}}, {'move': {'l': e, 'p': []}}]}, span)
                self.assign(b, c, {'k': 'binop', 'op': 'Add', 'a': {'copy': {'l': c, 'p': []}},
                                   'b': {'const': {'ty': 'usize', 'bits': '1', 'ival': '1', 'dbg': '1_usize'}}}, span)
                cont(b, tl, '(usize, %s)' % ety)
            return self.pull(n[1], span, restart, none_blk, k, depth + 1)
        if n is not None and n[0] in ('map', 'filter', 'filter_map'):
            kind, inner, cpath, cloc, cblk = n
            self.neutralise(cblk)
            clo = self.crate.body(cpath)
            env_ty = clo.locals[1]['ty']

            def k(b, e, ety, kind=kind, clo=clo, cloc=cloc, env_ty=env_ty):
                env = self.new_local(env_ty)
                self.assign(b, env, {'k': 'ref', 'mut': env_ty.startswith('&mut'), 'place': {'l': cloc, 'p': []}}, span)
                nxt = self.new_block(span)
                if kind == 'map':
                    y = self.new_local(clo.j.get('ret_ty') or 'unknown')
                    self.j['blocks'][b]['term'] = {'k': 'call', 'func': {'path': clo.path, 'full': clo.path, 'name': 'call', 'gargs': []},
                                                   'args': [{'move': {'l': env, 'p': []}}, {'move': {'l': e, 'p': []}}],
                                                   'dest': {'l': y, 'p': []}, 'target': nxt, 'unwind': None}
                    self.to_inline.append((b, clo, cloc))
                    cont(nxt, y, clo.j.get('ret_ty') or 'unknown')
                elif kind == 'filter_map':
                    # y = f(e);  None => next element,  Some(v) => v
                    y = self.new_local(clo.j.get('ret_ty') or 'std::option::Option<unknown>')
                    self.j['blocks'][b]['term'] = {'k': 'call', 'func': {'path': clo.path, 'full': clo.path, 'name': 'call', 'gargs': []},
                                                   'args': [{'move': {'l': env, 'p': []}}, {'move': {'l': e, 'p': []}}],
                                                   'dest': {'l': y, 'p': []}, 'target': nxt, 'unwind': None}
                    self.to_inline.append((b, clo, cloc))
                    dd = self.new_local('isize')
                    v = self.new_local('unknown')
                    keep = self.new_block(span)
                    self.assign(nxt, dd, {'k': 'discr', 'place': {'l': y, 'p': []}}, span)
                    self.j['blocks'][nxt]['term'] = {'k': 'switch', 'discr': {'move': {'l': dd, 'p': []}}, 'targets': [['0', restart[0]], ['1', keep]],
                                                     'otherwise': restart[0]}
                    self.assign(keep, v, {'k': 'use', 'op': {'move': {'l': y, 'p': [{'down': 1, 'name': 'Some'}, {'f': 0, 'name': '0', 'ty': 'unknown'}]}}}, span)
                    cont(keep, v, 'unknown')
                else:
                    er = self.new_local('&' + ety)
                    self.assign(b, er, {'k': 'ref', 'mut': False, 'place': {'l': e, 'p': []}}, span)
                    r = self.new_local('bool')
                    self.j['blocks'][b]['term'] = {'k': 'call', 'func': {'path': clo.path, 'full': clo.path, 'name': 'call', 'gargs': []},
                                                   'args': [{'move': {'l': env, 'p': []}}, {'move': {'l': er, 'p': []}}],
                                                   'dest': {'l': r, 'p': []}, 'target': nxt, 'unwind': None}
                    self.to_inline.append((b, clo, cloc))
                    keep = self.new_block(span)
                    self.j['blocks'][nxt]['term'] = {'k': 'switch', 'discr': {'move': {'l': r, 'p': []}}, 'targets': [['0', restart[0]]], 'otherwise': keep}
                    cont(keep, e, ety)
            return self.pull(inner, span, restart, none_blk, k, depth + 1)
        # a source: anything the engine understands natively
        ity = self.j['locals'][l]['ty']
        ety = 'unknown'
        entry = self.new_block(span)
        r = self.new_local('&mut ' + ity)
        o = self.new_local('std::option::Option<%s>' % ety)
        d = self.new_local('isize')
        e = self.new_local(ety)
        s1 = self.new_block(span)
        s2 = self.new_block(span)
        self.assign(entry, r, {'k': 'ref', 'mut': True, 'place': {'l': l, 'p': []}}, span)
        self.j['blocks'][entry]['term'] = {'k': 'call', 'func': {'path': NEXT, 'full': NEXT, 'name': 'next', 'trait': 'std::iter::Iterator', 'gargs': []},
                                           'args': [{'move': {'l': r, 'p': []}}], 'dest': {'l': o, 'p': []}, 'target': s1, 'unwind': None}
        self.assign(s1, d, {'k': 'discr', 'place': {'l': o, 'p': []}}, span)
        self.j['blocks'][s1]['term'] = {'k': 'switch', 'discr': {'move': {'l': d, 'p': []}}, 'targets': [['0', none_blk], ['1', s2]], 'otherwise': none_blk}
        self.assign(s2, e, {'k': 'use', 'op': {'move': {'l': o, 'p': [{'down': 1, 'name': 'Some'}, {'f': 0, 'name': '0', 'ty': ety}]}}}, span)
        cont(s2, e, ety)
        return entry


def _opt_agg(variant, fields):
    return {'k': 'agg', 'agg': 'adt', 'adt': 'std::option::Option', 'variant': 1 if variant == 'Some' else 0,
            'variant_name': variant, 'field_names': ['0'] if fields else [], 'fields': fields}


def _collect_to_loop(body, bi):
    """dest = X.collect()  ->  list = Vec::new(); loop { match next(&mut X) { None => break, Some(y) => list.push(y) } }; dest = list"""
    j = copy.deepcopy(body.j)
    t = j['blocks'][bi]['term']
    span = j['blocks'][bi]['tspan']
    x = _plain(t['args'][0])
    dest, target = t['dest'], t['target']
    dty = j['locals'][dest['l']]['ty'] if not dest['p'] else 'std::vec::Vec<unknown>'

    def new_local(ty):
        j['locals'].append({'ty': ty, 'name': None, 'mut': True})
        return len(j['locals']) - 1

    def blk(stmts, term):
        j['blocks'].append({'stmts': stmts, 'term': term, 'tspan': span, 'cleanup': False})
        return len(j['blocks']) - 1
    lst = new_local(dty)
    r = new_local('&mut iter')
    o = new_local('std::option::Option<unknown>')
    d = new_local('isize')
    y = new_local('unknown')
    lr = new_local('&mut ' + dty)
    u = new_local('()')
    n_head = len(j['blocks'])
    n_sw, n_push, n_back, n_end = n_head + 1, n_head + 2, n_head + 3, n_head + 4
    j['blocks'][bi]['term'] = {'k': 'call', 'func': {'path': 'std::vec::Vec::<T>::new', 'full': 'std::vec::Vec::<T>::new', 'name': 'new', 'gargs': []},
                               'args': [], 'dest': {'l': lst, 'p': []}, 'target': n_head, 'unwind': None}
    blk([{'k': 'assign', 'place': {'l': r, 'p': []}, 'rv': {'k': 'ref', 'mut': True, 'place': {'l': x, 'p': []}}, 'span': span}],
        {'k': 'call', 'func': {'path': NEXT, 'full': NEXT, 'name': 'next', 'trait': 'std::iter::Iterator', 'gargs': []},
         'args': [{'move': {'l': r, 'p': []}}], 'dest': {'l': o, 'p': []}, 'target': n_sw, 'unwind': None})
    blk([{'k': 'assign', 'place': {'l': d, 'p': []}, 'rv': {'k': 'discr', 'place': {'l': o, 'p': []}}, 'span': span}],
        {'k': 'switch', 'discr': {'move': {'l': d, 'p': []}}, 'targets': [['0', n_end], ['1', n_push]], 'otherwise': n_end})
    blk([{'k': 'assign', 'place': {'l': y, 'p': []}, 'rv': {'k': 'use', 'op': {'move': {'l': o, 'p': [{'down': 1, 'name': 'Some'}, {'f': 0, 'name': '0', 'ty': 'unknown'}]}}}, 'span': span},
         {'k': 'assign', 'place': {'l': lr, 'p': []}, 'rv': {'k': 'ref', 'mut': True, 'place': {'l': lst, 'p': []}}, 'span': span}],
        {'k': 'call', 'func': {'path': 'std::vec::Vec::<T, A>::push', 'full': 'std::vec::Vec::<T, A>::push', 'name': 'push', 'gargs': []},
         'args': [{'move': {'l': lr, 'p': []}}, {'move': {'l': y, 'p': []}}], 'dest': {'l': u, 'p': []}, 'target': n_back, 'unwind': None})
    blk([], {'k': 'goto', 'target': n_head})
    blk([{'k': 'assign', 'place': dest, 'rv': {'k': 'use', 'op': {'move': {'l': lst, 'p': []}}}, 'span': span}], {'k': 'goto', 'target': target})
    return Body(j, body.crate)


def _collect_result_to_loop(body, bi):
    """dest: Result<Vec<T>, E> = X.collect()  ->
         list = Vec::new(); loop { match next(&mut X) { None => break, Some(Ok(e)) => list.push(e), Some(Err(x)) => { dest = Err(x); goto after } } };
         dest = Ok(list)                      (the documented behaviour of `FromIterator for Result`: stop at the first Err)"""
    j = copy.deepcopy(body.j)
    t = j['blocks'][bi]['term']
    span = j['blocks'][bi]['tspan']
    x = _plain(t['args'][0])
    dest, target = t['dest'], t['target']
    rty = j['locals'][dest['l']]['ty']
    inner = rty[len('std::result::Result<'):]
    # the Vec type is the first generic argument
    depth, cut = 0, len(inner)
    for n, ch in enumerate(inner):
        if ch == '<':
            depth += 1
        elif ch == '>':
            depth -= 1
        elif ch == ',' and depth == 0:
            cut = n
            break
    vty = inner[:cut].strip()

    def new_local(ty):
        j['locals'].append({'ty': ty, 'name': None, 'mut': True})
        return len(j['locals']) - 1

    def blk(stmts, term):
        j['blocks'].append({'stmts': stmts, 'term': term, 'tspan': span, 'cleanup': False})
        return len(j['blocks']) - 1
    lst = new_local(vty)
    r = new_local('&mut iter')
    o = new_local('std::option::Option<std::result::Result<unknown, unknown>>')
    d = new_local('isize')
    d2 = new_local('isize')
    y = new_local('std::result::Result<unknown, unknown>')
    e = new_local('unknown')
    er = new_local('unknown')
    lr = new_local('&mut ' + vty)
    u = new_local('()')
    n_head = len(j['blocks'])
    n_sw, n_some, n_push, n_err, n_back, n_end = (n_head + k for k in range(1, 7))
    j['blocks'][bi]['term'] = {'k': 'call', 'func': {'path': 'std::vec::Vec::<T>::new', 'full': 'std::vec::Vec::<T>::new', 'name': 'new', 'gargs': []},
                               'args': [], 'dest': {'l': lst, 'p': []}, 'target': n_head, 'unwind': None}
    blk([{'k': 'assign', 'place': {'l': r, 'p': []}, 'rv': {'k': 'ref', 'mut': True, 'place': {'l': x, 'p': []}}, 'span': span}],
        {'k': 'call', 'func': {'path': NEXT, 'full': NEXT, 'name': 'next', 'trait': 'std::iter::Iterator', 'gargs': []},
         'args': [{'move': {'l': r, 'p': []}}], 'dest': {'l': o, 'p': []}, 'target': n_sw, 'unwind': None})
    blk([{'k': 'assign', 'place': {'l': d, 'p': []}, 'rv': {'k': 'discr', 'place': {'l': o, 'p': []}}, 'span': span}],
        {'k': 'switch', 'discr': {'move': {'l': d, 'p': []}}, 'targets': [['0', n_end], ['1', n_some]], 'otherwise': n_end})
    blk([{'k': 'assign', 'place': {'l': y, 'p': []}, 'rv': {'k': 'use', 'op': {'move': {'l': o, 'p': [{'down': 1, 'name': 'Some'}, {'f': 0, 'name': '0', 'ty': 'unknown'}]}}}, 'span': span},
         {'k': 'assign', 'place': {'l': d2, 'p': []}, 'rv': {'k': 'discr', 'place': {'l': y, 'p': []}}, 'span': span}],
        {'k': 'switch', 'discr': {'move': {'l': d2, 'p': []}}, 'targets': [['0', n_push], ['1', n_err]], 'otherwise': n_err})
    blk([{'k': 'assign', 'place': {'l': e, 'p': []}, 'rv': {'k': 'use', 'op': {'move': {'l': y, 'p': [{'down': 0, 'name': 'Ok'}, {'f': 0, 'name': '0', 'ty': 'unknown'}]}}}, 'span': span},
         {'k': 'assign', 'place': {'l': lr, 'p': []}, 'rv': {'k': 'ref', 'mut': True, 'place': {'l': lst, 'p': []}}, 'span': span}],
        {'k': 'call', 'func': {'path': 'std::vec::Vec::<T, A>::push', 'full': 'std::vec::Vec::<T, A>::push', 'name': 'push', 'gargs': []},
         'args': [{'move': {'l': lr, 'p': []}}, {'move': {'l': e, 'p': []}}], 'dest': {'l': u, 'p': []}, 'target': n_back, 'unwind': None})
    blk([{'k': 'assign', 'place': {'l': er, 'p': []}, 'rv': {'k': 'use', 'op': {'move': {'l': y, 'p': [{'down': 1, 'name': 'Err'}, {'f': 0, 'name': '0', 'ty': 'unknown'}]}}}, 'span': span},
         {'k': 'assign', 'place': dest, 'rv': {'k': 'agg', 'agg': 'adt', 'adt': 'std::result::Result', 'variant': 1, 'variant_name': 'Err',
                                               'field_names': ['0'], 'fields': [{'move': {'l': er, 'p': []}}]}, 'span': span}],
        {'k': 'goto', 'target': target})
    blk([], {'k': 'goto', 'target': n_head})
    blk([{'k': 'assign', 'place': dest, 'rv': {'k': 'agg', 'agg': 'adt', 'adt': 'std::result::Result', 'variant': 0, 'variant_name': 'Ok',
                                               'field_names': ['0'], 'fields': [{'move': {'l': lst, 'p': []}}]}, 'span': span}],
        {'k': 'goto', 'target': target})
    return Body(j, body.crate)


def expand_lazy_iterators(body, crate, max_rounds=6):
    cur = body
    used = set()
    for _ in range(max_rounds):
        nodes = _nodes(cur, crate)
        if not any(n[0] in ('map', 'filter', 'filter_map') for n in nodes.values()):
            break
        did = False
        # collect() of a lazy chain into a Vec
        for bi, t in list(cur.calls()):
            if t['func'].get('path') == COLLECT and len(t['args']) == 1 and t['target'] is not None:
                x = _plain(t['args'][0])
                dty = cur.local_ty(t['dest']['l']) if not t['dest']['p'] else ''
                if x is not None and _lazy(nodes, x) and dty.startswith('std::vec::Vec<') and not _generator_source(cur, nodes, x):
                    cur = _collect_to_loop(cur, bi)
                    used.add('collect@%s' % body.path)
                    did = True
                    break
                if x is not None and _lazy(nodes, x) and dty.startswith('std::result::Result<std::vec::Vec<') and not t['dest']['p'] \
                        and not _generator_source(cur, nodes, x):
                    cur = _collect_result_to_loop(cur, bi)
                    used.add('collect-result@%s' % body.path)
                    did = True
                    break
        if did:
            continue
        # next() on a lazy chain
        for bi, t in list(cur.calls()):
            if t['func'].get('path') != NEXT or len(t['args']) != 1 or t['target'] is None or t['dest']['p']:
                continue
            r = _plain(t['args'][0])
            x = _ref_target(cur, bi, r) if r is not None else None
            if x is None or not _lazy(nodes, x):
                continue
            g = _Gen(cur, crate, nodes)
            span = g.j['blocks'][bi]['tspan']
            opt, target = t['dest']['l'], t['target']
            none_blk = g.new_block(span)
            g.j['blocks'][none_blk]['stmts'].append({'k': 'assign', 'place': {'l': opt, 'p': []}, 'rv': _opt_agg('None', []), 'span': span})
            g.j['blocks'][none_blk]['term'] = {'k': 'goto', 'target': target}
            restart = [None]

            def final(b, e, ety, g=g, opt=opt, target=target, span=span):
                g.j['blocks'][b]['stmts'].append({'k': 'assign', 'place': {'l': opt, 'p': []},
                                                  'rv': _opt_agg('Some', [{'move': {'l': e, 'p': []}}]), 'span': span})
                g.j['blocks'][b]['term'] = {'k': 'goto', 'target': target}
            hop = g.new_block(span)          # restart point: filled in once the entry is known
            restart[0] = hop
            entry = g.pull(x, span, restart, none_blk, final)
            g.j['blocks'][hop]['term'] = {'k': 'goto', 'target': entry}
            g.j['blocks'][bi]['term'] = {'k': 'goto', 'target': hop}
            nb = Body(g.j, cur.crate)
            for (cb_block, clo, cloc_) in g.to_inline:
                nb = inline_once(nb, cb_block, clo, closure_local=cloc_)
                used.add(clo.path)
            cur = nb
            did = True
            break
        if not did:
            break
    if used:
        cur.inlined_from = set(getattr(body, 'inlined_from', set())) | used
    return cur
