"""Interprocedural 'what can this function return' analysis (A5 returns-origin summaries).

leaves(fn) maps the return value of a body to a set of leaf descriptors, looking through closures,
Python::with_gil, Fn*::call, Option/Result adaptors and local helper functions:

  ('const', text)            a literal
  ('extract', callee, garg)  payload of a conversion call (e.g. Py::extract::<bool>, JsValue::as_bool)
  ('errconst', variant)      an Err(...) literal (for Result-returning functions: variant name)
  ('param', name)            a parameter of the analysed function flows out
  ('opaque', text)           anything else (rules treat this as unrecognised => fail closed)
"""
from .engine import Fn, fmt_terms, fmt_node

PASS_CLOSURE = {
    # callee path -> index of the closure argument whose return value is the call's value
    'pyo3::Python::<\'_>::with_gil': 0,
    'pyo3::Python::<\'py>::with_gil': 0,
}
FN_CALL = {'std::ops::Fn::call', 'std::ops::FnMut::call_mut', 'std::ops::FnOnce::call_once'}

OPT_RES = ('std::option::Option::<T>::', 'std::result::Result::<T, E>::')


class Leaves:
    def __init__(self, ctx, crate, max_depth=12):
        self.ctx = ctx
        self.crate = crate
        self.max_depth = max_depth

    def body_of(self, path):
        b = self.crate.body(path)
        return self.ctx.fn(b) if b is not None else None

    def ret_terms(self, fn):
        out = set()
        for rb in fn.return_blocks():
            if rb in fn.reachable(0):
                out |= fn.local_terms(0, (rb, fn.nstmts(rb)))
        return frozenset(out)

    # ---- plain values -------------------------------------------------------------------
    def value(self, fn, terms, depth=0, stack=()):
        """leaves of a plain (non-wrapped) value"""
        out = set()
        for n in terms:
            out |= self._value_node(fn, n, depth, stack)
        return out

    def _closure_path(self, terms, fn=None):
        ps = set()
        for n in terms:
            if n[0] == 'closure':
                ps.add(n[1])
                if fn is not None and len(n) > 2:
                    # what the closure captured, as terms of the function that built it
                    if not hasattr(self, '_captures'):
                        self._captures = {}
                    self._captures[n[1]] = (fn, n[2])
            else:
                return None
        return ps

    def _value_node(self, fn, n, depth, stack):
        if depth > self.max_depth:
            return {('opaque', 'depth')}
        k = n[0]
        if k == 'const':
            return {('const', n[1])}
        if k == 'param':
            return {('param', n[2] or str(n[1]))}
        if k == 'clone':
            return self.value(fn, n[1], depth + 1, stack)
        if k == 'unwrap':
            return self.payload(fn, n[1], depth + 1, stack)
        if k == 'rec':
            return set()
        if k == 'call':
            path, args = n[1], n[2]
            if path in PASS_CLOSURE:
                cps = self._closure_path(args[PASS_CLOSURE[path]], fn)
                if cps:
                    return self._ret_of(cps, 'value', depth, stack)
            if path in FN_CALL:
                cps = self._closure_path(args[0], fn)
                if cps:
                    return self._ret_of(cps, 'value', depth, stack)
            for pre in OPT_RES:
                if path.startswith(pre):
                    m = path[len(pre):]
                    if m == 'unwrap_or':
                        return self.payload(fn, args[0], depth + 1, stack) | self.value(fn, args[1], depth + 1, stack)
                    if m == 'unwrap_or_default':
                        return self.payload(fn, args[0], depth + 1, stack) | {('const', 'default')}
                    if m == 'unwrap_or_else':
                        cps = self._closure_path(args[1])
                        r = self.payload(fn, args[0], depth + 1, stack)
                        if cps:
                            return r | self._ret_of(cps, 'value', depth, stack)
                        return r | {('opaque', 'unwrap_or_else closure')}
                    if m in ('is_ok', 'is_some', 'is_err', 'is_none'):
                        return {('opaque', m)}
                    if m in ('map_or_else', 'map_or') and len(args) >= 3:
                        # x.map_or_else(on_none_or_err, f): the fallback closure's value, or f applied to the payload
                        cf = self._closure_path(args[2])
                        if m == 'map_or_else':
                            cd = self._closure_path(args[1])
                            r = self._ret_of(cd, 'value', depth, stack) if cd else {('opaque', 'map_or_else fallback')}
                        else:
                            r = self.value(fn, args[1], depth + 1, stack)
                        if cf:
                            return r | self._rebind(self._ret_of(cf, 'value', depth, stack), args[0])
                        return r | {('opaque', m + ' closure')}
            b = self.body_of(path)
            if b is not None:
                return self._ret_of({path}, 'value', depth, stack, subst=self._subst(fn, n, b), args=n[2], caller=fn)
            return {('extract', path, self._garg(fn, n), self.recv_root(n[2][0] if n[2] else frozenset()))}
        if k in ('binop', 'unop', 'cast'):
            return {('opaque', fmt_node(n)[:80])}
        if k == 'agg':
            return {('opaque', 'agg ' + n[1])}
        if k == 'field' and str(n[2]).isdigit() and n[1] and all(m[0] == 'param' and m[1] == 1 for m in n[1]):
            cap = getattr(self, '_captures', {}).get(fn.path)
            if cap is not None and int(n[2]) < len(cap[1]):
                outer, caps = cap
                return self.value(outer, caps[int(n[2])], depth + 1, stack)
        return {('opaque', fmt_node(n)[:80])}

    def _rebind(self, leaves, recv_terms):
        """a closure passed to and_then/map receives the payload of the adaptor's receiver: conversion leaves whose
        receiver is the closure parameter are re-rooted at that receiver"""
        roots = self.recv_root(recv_terms)
        out = set()
        for l in leaves:
            if l[0] == 'extract' and len(l) > 3 and l[3] and all(r[0] == 'param' for r in l[3]):
                out.add((l[0], l[1], l[2], roots))
            else:
                out.add(l)
        return out

    def _garg(self, fn, n):
        # generic args of the call at its site (to tell extract::<bool> from extract::<f64>)
        site = n[3]
        f = self.body_of(site[0]) if site[0] != fn.path else fn
        if f is None:
            return ''
        t = f.blocks[site[1]]['term']
        if t['k'] == 'call':
            g = t['func'].get('gargs', [])
            return g[-1] if g else ''
        return ''

    def _call_term(self, fn, n):
        site = n[3]
        f = self.body_of(site[0]) if site[0] != fn.path else fn
        if f is None:
            return None
        t = f.blocks[site[1]]['term']
        return t if t['k'] == 'call' else None

    def _subst(self, fn, n, callee_fn):
        """generic parameter name of the callee -> generic argument at this call site (conversion calls inside a generic
        helper, e.g. extract::<T>, are strict for the type the caller instantiates T with)"""
        t = self._call_term(fn, n)
        if t is None:
            return None
        gargs = t['func'].get('gargs', [])
        gens = callee_fn.b.j.get('generics') or []
        if len(gens) != len(gargs):
            return None
        return {g: a for g, a in zip(gens, gargs) if not g.startswith("'")}

    def _ret_of(self, paths, mode, depth, stack, subst=None, args=None, caller=None):
        out = set()
        for p in paths:
            if p in stack:
                continue
            f = self.body_of(p)
            if f is None:
                out.add(('opaque', 'no body ' + p))
                continue
            rt = self.ret_terms(f)
            if mode == 'value':
                res = self.value(f, rt, depth + 1, stack + (p,))
            else:
                res = self.payload(f, rt, depth + 1, stack + (p,))
            if subst:
                res = {(l[0], l[1], subst.get(l[2], l[2])) + tuple(l[3:]) if l[0] == 'extract' and len(l) > 2 else l for l in res}
            if args is not None and caller is not None:
                # a leaf that is a parameter of the helper (`fallback`) is what this call site passes for it
                res1 = set()
                for l in res:
                    if l[0] == 'param' and len(l) == 2:
                        idx = None
                        for i in range(1, f.b.arg_count + 1):
                            if f.b.local_name(i) == l[1] or str(i) == l[1]:
                                idx = i
                        if idx is not None and idx - 1 < len(args):
                            res1 |= self.value(caller, args[idx - 1], depth + 1, stack)
                            continue
                    res1.add(l)
                res = res1
            if args is not None:
                res2 = set()
                for l in res:
                    if l[0] == 'extract' and len(l) > 3 and any(r[0] == 'call' and isinstance(r[2], tuple) for r in l[3]):
                        roots = set()
                        for r in l[3]:
                            if r[0] == 'call' and isinstance(r[2], tuple) and r[2][0] == 'param' and r[2][1] - 1 < len(args):
                                a = args[r[2][1] - 1]
                                names = [c[1].split('"')[1] for c in a if c[0] == 'const' and '"' in c[1]]
                                roots.add(('call', r[1], names[0] if len(names) == 1 and len(a) == 1 else None))
                            else:
                                roots.add(r)
                        l = (l[0], l[1], l[2], frozenset(roots))
                    res2.add(l)
                res = res2
            out |= res
        return out

    # ---- payload of an Option/Result ------------------------------------------------------
    def payload(self, fn, terms, depth=0, stack=()):
        """leaves of the Some/Ok payload of a wrapped value (the Err/None side contributes nothing;
        use errs() for it)"""
        out = set()
        for n in terms:
            out |= self._payload_node(fn, n, depth, stack)
        return out

    def _payload_node(self, fn, n, depth, stack):
        if depth > self.max_depth:
            return {('opaque', 'depth')}
        k = n[0]
        if k == 'agg':
            if n[2] in ('Ok', 'Some'):
                return self.value(fn, n[3][0][1], depth + 1, stack)
            if n[2] in ('Err', 'None'):
                return set()
            return {('opaque', 'agg ' + n[1])}
        if k == 'rec':
            return set()
        if k == 'clone':
            return self.payload(fn, n[1], depth + 1, stack)
        if k == 'call':
            path, args = n[1], n[2]
            if path == 'std::ops::FromResidual::from_residual':
                return set()
            if path in PASS_CLOSURE:
                cps = self._closure_path(args[PASS_CLOSURE[path]])
                if cps:
                    return self._ret_of(cps, 'payload', depth, stack)
            if path in FN_CALL:
                cps = self._closure_path(args[0])
                if cps:
                    return self._ret_of(cps, 'payload', depth, stack)
            for pre in OPT_RES:
                if path.startswith(pre):
                    m = path[len(pre):]
                    if m in ('and_then',):
                        cps = self._closure_path(args[1])
                        if cps:
                            return self._rebind(self._ret_of(cps, 'payload', depth, stack), args[0])
                        fi = [x for x in args[1] if x[0] == 'fnitem']
                        if fi:
                            return self._ret_of({x[1] for x in fi}, 'payload', depth, stack)
                        return {('opaque', 'and_then')}
                    if m in ('map',):
                        cps = self._closure_path(args[1])
                        if cps:
                            return self._rebind(self._ret_of(cps, 'value', depth, stack), args[0])
                        fi = [x for x in args[1] if x[0] == 'fnitem']
                        if fi:
                            out = set()
                            for x in fi:
                                if self.body_of(x[1]) is not None:
                                    out |= self._ret_of({x[1]}, 'value', depth, stack)
                                else:
                                    out.add(('extract', x[1], ''))
                            return out
                        return {('opaque', 'map')}
                    if m in ('or', 'or_else'):
                        return self.payload(fn, args[0], depth + 1, stack) | {('opaque', m)}
                    if m in ('ok_or', 'ok_or_else', 'map_err', 'ok', 'as_ref', 'as_mut', 'cloned', 'copied', 'inspect', 'inspect_err'):
                        return self.payload(fn, args[0], depth + 1, stack)
            b = self.body_of(path)
            if b is not None:
                return self._ret_of({path}, 'payload', depth, stack, subst=self._subst(fn, n, b), args=n[2])
            return {('extract', path, self._garg(fn, n), self.recv_root(n[2][0] if n[2] else frozenset()))}
        if k == 'param':
            return {('param', n[2] or str(n[1]))}
        return {('opaque', fmt_node(n)[:80])}

    # ---- receiver provenance of a conversion call ------------------------------------------------
    PASS_RECV = ('downcast', 'downcast_into', 'downcast_exact', 'cast', 'cast_into', 'bind', 'into_bound', 'as_any', 'into_any',
                 'as_ref', 'as_borrowed', 'to_owned', 'clone', 'clone_ref', 'borrow', 'unbind', 'as_unbound', 'dyn_into', 'dyn_ref',
                 'unchecked_into', 'unchecked_ref', 'into', 'from')

    def recv_root(self, ts, depth=0):
        """what the receiver of a conversion denotes: a frozenset of roots
        ('call', callee path, method-name constant or None) | ('param', name) | ('other', text);
        wrappers that only re-type the same object (downcast, bind, as_any, ..) are looked through"""
        out = set()
        if depth > 8:
            return frozenset([('other', 'depth')])
        for n in ts:
            k = n[0]
            if k in ('unwrap', 'clone'):
                out |= self.recv_root(n[1], depth + 1)
            elif k == 'param':
                out.add(('param', n[2] or str(n[1])))
            elif k == 'agg' and n[2] in ('Ok', 'Some') and n[3]:
                out |= self.recv_root(n[3][0][1], depth + 1)
            elif k == 'call':
                name = n[1].rsplit('::', 1)[-1]
                optres = any(n[1].startswith(pre) for pre in OPT_RES)
                if name in self.PASS_RECV and n[2]:
                    out |= self.recv_root(n[2][0], depth + 1)
                elif optres and name in ('ok_or', 'ok_or_else', 'map_err', 'ok', 'as_mut', 'cloned', 'copied', 'or_else', 'inspect', 'inspect_err') and n[2]:
                    out |= self.recv_root(n[2][0], depth + 1)
                elif optres and name in ('and_then', 'map') and len(n[2]) > 1 and self._closure_path(n[2][1]):
                    # the payload of X.and_then(|p| E) is the payload of E; where E is rooted at the closure parameter p
                    # it is rooted at the payload of X
                    for cp in self._closure_path(n[2][1]):
                        f = self.body_of(cp)
                        if f is None:
                            out.add(('other', 'no body ' + cp))
                            continue
                        for r in self.recv_root(self.ret_terms(f), depth + 1):
                            if r[0] == 'param':
                                out |= self.recv_root(n[2][0], depth + 1)
                            else:
                                out.add(r)
                else:
                    mname = None
                    for a in n[2][1:3]:
                        for c in a:
                            if c[0] == 'const' and '"' in c[1]:
                                mname = c[1].split('"')[1]
                    if mname is None and n[1].rsplit('::', 1)[-1].startswith('call_method'):
                        # Py<T>::call_method*(self, py, name, ..) / Bound / PyAnyMethods::call_method*(self, name, ..)
                        pos = 2 if n[1].startswith('pyo3::Py::<T>::') else 1
                        if pos < len(n[2]) and len(n[2][pos]) == 1 and next(iter(n[2][pos]))[0] == 'param':
                            mname = ('param', next(iter(n[2][pos]))[1])   # a parameter of this helper: resolved at its call sites
                        elif pos < len(n[2]) and len(n[2][pos]) == 1 and next(iter(n[2][pos]))[0] == 'field':
                            # a variable captured by the closure this call sits in (`with_gil(|py| obj.call_method1(py, method, ..))`):
                            # what it was where the closure was built - a parameter of the helper, or a literal
                            fnode = next(iter(n[2][pos]))
                            site_fn = n[3][0] if len(n) > 3 and isinstance(n[3], tuple) else None
                            cap = getattr(self, '_captures', {}).get(site_fn)
                            if cap is not None and str(fnode[2]).isdigit() and fnode[1] and all(m[0] == 'param' and m[1] == 1 for m in fnode[1]) \
                                    and int(fnode[2]) < len(cap[1]):
                                cv = cap[1][int(fnode[2])]
                                if len(cv) == 1:
                                    c0 = next(iter(cv))
                                    if c0[0] == 'param':
                                        mname = ('param', c0[1])
                                    elif c0[0] == 'const' and '"' in c0[1]:
                                        mname = c0[1].split('"')[1]
                    out.add(('call', n[1], mname))
            elif k == 'field':
                out.add(('field', n[2]))
            else:
                out.add(('other', k))
        return frozenset(out)

    # ---- error side -----------------------------------------------------------------------
    def may_be_err_free(self, fn, terms):
        """not needed yet"""
        return False
