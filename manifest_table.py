# property table for gen_manifest.py.  Properties not yet built are listed as not applicable
# ("not built yet") so that MANIFEST.json never registers a vacuous check.
CLAIMED['C20'] = (
    'interprocedural return-value origin analysis over MIR (fail-closed value set of every callback adapter impl)',
    'Static rule discharge: for every StateValidityChecker/Goal/GoalRegion/GoalSampleableRegion impl of oxmpl-py and oxmpl-js the set of values the adapter can return is computed through closures, with_gil and Option/Result adaptors and must be {strict extraction of the callback result, fail-closed constant}. Exact for the stated policy on every state and failure position; does not execute Python.',
    'Trusted: rustc MIR, the mirfacts serialisation, documented strictness of pyo3 extract::<bool>/<f64> and JsValue::as_bool/as_f64; "identical to callbacks returning False" follows from the shared planner code and is not re-proved.',
    'DESIGN.md section 4, C20')
NOT_BUILT = ['C01', 'C02', 'C03', 'C05', 'C06', 'C07', 'C08', 'C11', 'C12', 'C13', 'C15', 'C16', 'C17', 'C18', 'C19']
for p in NOT_BUILT:
    if p not in CLAIMED:
        NOT_APPLICABLE[p] = 'not built yet (static rule designed in DESIGN.md section 4; moved to claimed when its check exists)'
