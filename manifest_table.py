# property table for gen_manifest.py.  Properties not yet built are listed as not applicable
# ("not built yet") so that MANIFEST.json never registers a vacuous check.
CLAIMED['C20'] = (
    'interprocedural return-value origin analysis over MIR (fail-closed value set of every callback adapter impl)',
    'Static rule discharge: for every StateValidityChecker/Goal/GoalRegion/GoalSampleableRegion impl of oxmpl-py and oxmpl-js the set of values the adapter can return is computed through closures, with_gil and Option/Result adaptors and must be {strict extraction of the callback result, fail-closed constant}. Exact for the stated policy on every state and failure position; does not execute Python.',
    'Trusted: rustc MIR, the mirfacts serialisation, documented strictness of pyo3 extract::<bool>/<f64> and JsValue::as_bool/as_f64; "identical to callbacks returning False" follows from the shared planner code and is not re-proved.',
    'DESIGN.md section 4, C20')
CLAIMED['C14'] = (
    'recognised-construction rules over MIR (single unmodified uniform primitives over the stored bounds; cube -> ball rejection -> normalise -> cone rejection derivation for SO(3))',
    'PARTIAL CLAIM: decides which construction each uniform sampler is, not a goodness-of-fit statistic. R^n / SO(2): the value stored for every dimension / the angle is one random_range draw over exactly that dimension\'s stored bounds, from the caller\'s generator, stored unmodified, one draw per dimension. SO(3): four separate draws from one symmetric constant range on the caller\'s generator, candidate = draws / sqrt(sum of their squares) with every draw used once, built only under "sum of squares <= 1", returned unmodified and only under distance(centre, candidate) <= max_angle on that very candidate, every rejection loops back to fresh draws (any other shape is reported as an unrecognised construction). Compound / SE(2) / SE(3): every component sampled once by its own sampler with the forwarded generator (C13 rules on sample_uniform). Each clause is a necessary condition whose violation biases the distribution; that the recognised constructions are uniform is the textbook argument, not re-proved.',
    'Trusted: rustc MIR, mirfacts; rand::Rng::random_range is uniform on its range; consecutive draws of one generator are independent; floating-point granularity ignored.',
    'DESIGN.md section 10.11')
CLAIMED['C07'] = (
    'who-may-call + generator-identity dataflow + take/restore pairing + clock taint over MIR',
    'Static non-interference rules decided for every call history: (source) nondeterminism sources (OS/thread rng, SystemTime, RandomState, hash iteration, pointer-to-int) are called on planning paths only in the unseeded fallback of the rng field; (flow) every rng consumer reachable from the planner API draws from the planner generator or forwards its caller\'s, RngCore wrappers forward faithfully; (restore) a generator taken from the rng field is stored back on every normal exit; (clock) Instant values reach only the deadline comparison; (seed) PlannerConfig.seed reaches seed_from_u64 unmodified and lands in the rng field. Does not compare two executions.',
    'Trusted: rustc MIR, mirfacts, determinism of StdRng::seed_from_u64 and rand adaptors, deterministic user callbacks.',
    'DESIGN.md section 4, C07')
CLAIMED['C11'] = (
    'effect/purity summaries + origin terms over MIR (dropped pure results, bounds-field agreement, range guards)',
    'Static structural agreement of the three bounds operations of each primitive space: no pure call on the state has its result dropped inside a space operation (lost update); sample/enforce/check read self.bounds index-aligned with lower as lower and upper as upper (clamp, range and comparison sites); the SO(3) sampler returns only states that passed the bounds predicate; every random_range is non-empty by a dominating lo<hi guard or by the constructor invariant of C12; enforce_bounds tests the state it leaves behind. Numerical idempotence / tolerance arithmetic is not decided.',
    'Trusted: rustc MIR, mirfacts, documented behaviour of f64::clamp/min/max; bounds fields written only by constructors; relies on C12.stored/nan for ranges drawn from bounds fields.',
    'DESIGN.md section 4, C11')
CLAIMED['C12'] = (
    'check-then-store origin matching + abstract order domain {<,=,>,unordered} over MIR',
    'For every fallible space constructor the value stored in the bounds field is traced to its origin and must be the very operands of an ordering test that dominates the Ok return (per reaching definition / per loop element); the accept relation is tabulated over {lt,eq,gt,unordered} so NaN-accepting guards and check-then-transform are reported; radius non-negativity is evaluated through f64::min/max; length gates dominate every use of the provided vector and fail with DimensionMismatch; component constructor errors are ?-propagated; SE2State::new delegates to SO2State::new. Wrapping / normalisation arithmetic is not decided.',
    'Trusted: rustc MIR, mirfacts, IEEE semantics of comparisons and f64::min/max with NaN.',
    'DESIGN.md section 4, C12')
CLAIMED['C01'] = (
    'must-pass-through-edge (dominating true edge of the motion check / validity query) + value-origin matching over MIR',
    'Static admission rules on every path of every planner: (prov) every state entering a returned path is a clone of a tree/roadmap node state or a start state; (admit) every non-root container push is dominated by the true edge of a motion check whose `to` argument is the pushed state, or of a validity query on it; (kernel) each motion checker answers true only through is_valid(to) or through the normal exit of an interpolation loop that validates every iterate, whose last iterate is t=1 and that cannot be entered with zero steps; (gate) every Ok of solve is behind the true edge of a validity query on the start state whose false edge returns only InvalidStartState; (root) tree roots are start states or are validated before any Ok.',
    'Trusted: rustc MIR, mirfacts; assumes S: Clone is value preserving and interpolate(a,b,1) == b (C10, not decided); node states immutable after insertion (C15).',
    'DESIGN.md section 4, C01')
CLAIMED['C03'] = (
    'link-write enumeration + dominating-guard matching per reaching definition over MIR; closed-form discretisation bound',
    'Every way an edge is created (node literal with a parent, rewired parent store, adjacency-list pushes in both directions, search-root insertion for the PRM start connection) is enumerated from the MIR; for each reaching definition of the linked index (index lists transfer the obligation to their push sites) a motion check whose two state arguments are exactly the two end points must dominate the write. The step-count formula n = round(d/(L*c)) with direct-check threshold K is recognised and the worst-case gap max(c, K c) (ceil) must be <= 1 longest-valid-segment length; every get_longest_valid_segment_length depends on fraction and extent / all components and weights.',
    'Trusted: rustc MIR, mirfacts; assumes distance-proportional interpolation (C10) and symmetry of the checked segment; relies on C01.kernel for "every iterate is queried".',
    'DESIGN.md section 4, C03')
CLAIMED['C05'] = (
    'steer-shape recognition with polarity facts + dominating radius guards + interprocedural neighbour-list summary over MIR',
    'Every link of every planner is covered either by the steer discipline (new state = target when d <= max_distance, interpolate(near, target, max_distance/d) only on the d > max_distance edge, d the distance between exactly near and target, max_distance the public field unmodified, link made to that same near node) or by a dominating distance(x,y) < R comparison on exactly its end points with R a public radius field; RRT* neighbour lists are summarised through find_neighbours. Decides the discipline the metric bound rests on, not the metric bound itself.',
    'Trusted: rustc MIR, mirfacts; assumes d(a, interpolate(a,b,t)) = t d(a,b) (C10) and symmetric distance (C09).',
    'DESIGN.md section 4, C05')
CLAIMED['C02'] = (
    'clear-before-reroot ordering + root provenance + dominating goal query on the terminal node over MIR',
    'For every history of setup / problem replacement: each function that stores a problem definition reads it only after the store, clears every tree container before pushing exactly one parentless root per container whose origin is start_states[..] (or a goal sample) of the stored problem; roadmap planners clear the roadmap in setup, leave it untouched when the problem is replaced and store no start-derived state; every non-root push has a parent; every Ok is dominated by the goal predicate on the state of the terminal node handed to path extraction (index of the node just pushed, index returned by the extension helper under the selecting flag, membership in a list filled only under the goal predicate, or the goal-sampled root); extracted paths are non-empty. Vector ordering is left to the existing tests.',
    'Trusted: rustc MIR, mirfacts; S: Clone value preserving; sample_goal contract.',
    'DESIGN.md section 4, C02')
CLAIMED['C15'] = (
    'per-write inductive invariant rules over MIR (index provenance, growth-only containers, strict rewiring guard)',
    'The structural half of the tree invariant, which is an invariant of each write and therefore holds for every reachable tree: parent indices written at push time come from a scan of the same container made before the push (so parent < child); re-parenting an existing node is guarded by a strict `<` between cost_fn(node, new parent) and the node\'s recorded cost (an ancestor can never strictly improve through a descendant); outside setup/new node containers are only pushed to; stored node states are never written; path extraction follows parent links and stops at the parentless node. Validity, resolution and step bound of every node/edge are C01.admit / C03.link / C05, which range over all writes.',
    'Trusted: rustc MIR, mirfacts; assumes non-negative distance (C09) and C17.cost.',
    'DESIGN.md section 4, C15')
CLAIMED['C16'] = (
    'arg-min scan recognition, branch-polarity facts, per-iteration push counting on the loop DAG over MIR',
    'Per-iteration transition shape for every iteration of every run: the node steered from is the arg-min of distance(tree[i], target) over the whole tree (index-0 seed, scan from <=1 to len, strict `<` update, running minimum updated together with the index and equal to the step-ratio divisor); at most one push per container along any acyclic path through the main loop (helpers summarised; the two RRT-Connect operands are distinct trees in every arm); sample_goal sits on the true edge and sample_uniform on the false edge of random_bool(self.goal_bias); RRT-Connect grows the tree that is not larger, connects the other tree to the node just added and joins the branches only on Reached. Steer and invalid-adds-nothing are C05.steer and C01.admit.',
    'Trusted: rustc MIR, mirfacts; Rng::random_bool(p) semantics.',
    'DESIGN.md section 4, C16')
CLAIMED['C17'] = (
    'cost-function shape recognition + paired-definition (cost, parent) matching + sibling rng-signature comparison over MIR',
    'RRT* bookkeeping discipline: cost_fn(child, parent) = parent.cost + distance(child.state, parent.state); every stored cost is cost_fn(that node, that node\'s parent) and each cost definition is paired with a parent-index definition made under the same conditions for the same parent (push and rewire); neighbour candidates come from the summarised neighbour list of the new state and replace the best only when cheaper; existing nodes are written only with cost and parent together, for neighbours of the new node; RRT and RRT* consume the generator in the same order with the same bias and step fields. "No longer than RRT" is a numeric consequence and is not decided.',
    'Trusted: rustc MIR, mirfacts; non-negative distance (C09); motion-check half of each link is C03.link.',
    'DESIGN.md section 4, C17')
CLAIMED['C18'] = (
    'post-dominance / guard-signature pairing of graph writes and BFS discipline rules over MIR',
    'Structural invariants of PRM: the milestone push is confined to and post-dominates the accept edge of the validity query on the sample; each forward edge has exactly one mirror edge recorded under the same conditions for the same index, written from the node just pushed, indices come from a 0..len scan made before the push; roadmap links are radius- and motion-guarded (C05.radius, C03.link re-run); a non-empty roadmap makes construct_roadmap return Ok(()) without writes; the query uses a FIFO, marks and records the parent at enqueue (parent = dequeued node, roots None), enqueues unvisited neighbours of the dequeued node and tests the goal on the dequeued index; replacing the problem writes only the problem definition. Completeness / hop-minimality follow by the textbook BFS argument from these premises.',
    'Trusted: rustc MIR, mirfacts; textbook BFS theorem; fields private (compile-fail witness in thorough tier).',
    'DESIGN.md section 4, C18')
CLAIMED['C06'] = (
    'natural-loop classification over the interprocedural reach set + deadline-test shape and polarity + positivity of the step-count divisor',
    'No loop reachable from the planner API (trait calls resolved to every in-workspace impl) can run without an iterator bound over a finite std iterator or a deadline test on every cycle; parent walks are exempt by C15.walk/C15.acyclic/C18.bfs. Each deadline test compares elapsed() of an Instant created earlier in the same call, unmodified, with the timeout parameter/field, leaves the loop when elapsed is greater and ends in Err(Timeout) (Ok(()) for roadmap construction). Every value stored into a resolution field is a positive constant, a copy of the same field, or a parameter under a dominating > 0 fact, so the motion-check step count has a non-zero divisor. The roadmap query returns NoSolutionFound when nothing attaches or the search is exhausted. Wall-clock figures and callback cost are not decided; "never a path on an infeasible world" is C01+C03.',
    'Trusted: rustc MIR, mirfacts; user callbacks terminate; finite std iterators terminate; compound weights positive. One recorded finding: the SO3 rejection-sampling loop.',
    'DESIGN.md section 4, C06')
CLAIMED['C08'] = (
    'error-gate must-pass-through + Option-field typestate + exhaustive may-panic site enumeration with discharge classes over MIR',
    'Every non-setup entry point obtains problem_def / validity_checker through ok_or(PlannerUninitialised)?; the roadmap query answers UnsampledStateSpace on an empty roadmap before indexing it; the Option fields are set to Some only by setup / problem replacement and never cleared or moved out; every may-panic site (unwrap/expect, panic!/assert!, MIR Assert terminators, Index/IndexMut, library calls with documented panicking preconditions) in the 91 functions reachable from the planner API is enumerated and discharged by a local guard, a checked invariant of another rule (C02.reroot, C15.range/noremove, C18.bfs, C11.range, C12.count) or the reviewed malformed-input table; all other sites are violations keyed (function, callee, ordinal). The start gate is C01.gate and most-recent-problem is C02.reroot. 16 recorded findings: sampler unwraps, start_states[0] on an empty list, random_bool(goal_bias).',
    'Trusted: rustc MIR, mirfacts; std/rand panic only under documented preconditions; usize counters cannot overflow; shape-mismatched states are malformed input.',
    'DESIGN.md section 4, C08')
CLAIMED['C13'] = (
    'sibling-agreement table over trait impls + induction-variable alignment + dependence/shape recognition over MIR',
    'Delegation fidelity of the compound stack: each of the 6 StateSpace methods of CompoundStateSpace calls exactly the matching *_dyn, each blanket *_dyn calls exactly the matching StateSpace method on self with its parameters in order, each SE2/SE3 method forwards to self.0 with state.0 arguments in order (24 forwarders); inside every compound method subspaces[i], components[i] of every state argument and weights[i] use the same induction variable of a loop over 0..subspaces.len() with no early exit other than false / ?; distance and resolution are sqrt of a zero-initialised sum of (component*weight)^2; interpolate forwards t unmodified; sample_uniform collects the components in order; SE2/SE3 build [real_vector, so2|so3] with weights [1.0, weight] in the order of their state constructors.',
    'Trusted: rustc MIR, mirfacts; powi/sqrt semantics. The algebra is checked as shape/dependence, not as arithmetic.',
    'DESIGN.md section 4, C13')
CLAIMED['C19'] = (
    'binding-to-core call-site agreement (parameter-name oracle), variant exhaustiveness, effect whitelist over oxmpl-py MIR',
    'Delegation fidelity of oxmpl-py: at each of the 65 binding->core call sites same-typed scalar arguments are passed in the core parameter order (decided by name agreement between binding and core parameter names) and unmodified; every planner wrapper reaches the core for all 6 variants in new / setup / solve (/ construct_roadmap) and the four wrappers agree in shape; the 31 state / path / problem-definition conversions contain no float operation and no re-canonicalisation; the 5 fallible space constructors map their error to ValueError and never unwrap; PlannerConfig(seed) reaches the core unmodified. Outputs of two runs are not compared.',
    'Trusted: rustc MIR, mirfacts; pyo3 extraction passes numbers unchanged; core parameter names are meaningful.',
    'DESIGN.md section 4, C19')
CLAIMED['C09'] = (
    'interval abstract interpretation (range + NaN flag) of the distance bodies over MIR — range clauses only',
    'PARTIAL CLAIM — range clauses of C09 only: every StateSpace::distance body (R^n, SO(2), SO(3), compound; SE(2)/SE(3) delegate, see C13.match) is abstractly interpreted over intervals with a may-be-NaN flag and shown to return a value in [0, +inf) resp. [0, pi] that is never NaN, for ALL finite inputs (so for every special value of the lattice at once). Identity d(a,a)=0, symmetry, triangle inequality, representation invariance and agreement with a reference are NOT decided by this check (they need numeric or symbolic evaluation, another technique family).',
    'Trusted: rustc MIR, mirfacts, the interval transfer functions (documented ranges of abs, sqrt, powi, min/max, acos, rem_euclid incl. its rounding case); inputs finite and below 1e150 in magnitude.',
    'DESIGN.md section 10.5')
CLAIMED['C10'] = (
    'interval abstract interpretation of the SO(2) angle producers over MIR — canonical-form clause for angles only',
    'PARTIAL CLAIM — canonical-form clause for angles only: the value stored by SO2StateSpace::interpolate and the values produced by SO2State::new / SO2State::normalise are shown to lie in [-pi, pi] and to be non-NaN for all finite inputs and finite t. End-point exactness, shortest-path / constant-speed proportionality, unit norm of interpolated quaternions and a<->b symmetry are NOT decided (numeric statements outside this technique family); checks that rely on them (C03, C05) say so.',
    'Trusted: rustc MIR, mirfacts, interval transfer functions; rem_euclid(x, m) in [0, m]; inputs finite and below 1e150.',
    'DESIGN.md section 10.5')
NOT_BUILT = []
for p in NOT_BUILT:
    if p not in CLAIMED:
        NOT_APPLICABLE[p] = 'not built yet (static rule designed in DESIGN.md section 4; moved to claimed when its check exists)'
