# property table for gen_manifest.py.  Properties not yet built are listed as not applicable
# ("not built yet") so that MANIFEST.json never registers a vacuous check.
CLAIMED['C20'] = (
    'interprocedural return-value origin analysis over MIR (fail-closed value set of every callback adapter impl)',
    'Static rule discharge: for every StateValidityChecker/Goal/GoalRegion/GoalSampleableRegion impl of oxmpl-py and oxmpl-js the set of values the adapter can return is computed through closures, with_gil and Option/Result adaptors and must be {strict extraction of the callback result, fail-closed constant}. Exact for the stated policy on every state and failure position; does not execute Python.',
    'Trusted: rustc MIR, the mirfacts serialisation, documented strictness of pyo3 extract::<bool>/<f64> and JsValue::as_bool/as_f64; "identical to callbacks returning False" follows from the shared planner code and is not re-proved.',
    'DESIGN.md section 4, C20')
CLAIMED['C07'] = (
    'who-may-call + generator-identity dataflow + take/restore pairing + clock taint over MIR',
    'Static non-interference rules decided for every call history: (source) nondeterminism sources (OS/thread rng, SystemTime, RandomState, hash iteration, pointer-to-int) are called on planning paths only in the unseeded fallback of the rng field; (flow) every rng consumer reachable from the planner API draws from the planner generator or forwards its caller\'s, RngCore wrappers forward faithfully; (restore) a generator taken from the rng field is stored back on every normal exit; (clock) Instant values reach only the deadline comparison; (seed) PlannerConfig.seed reaches seed_from_u64 unmodified and lands in the rng field. Does not compare two executions.',
    'Trusted: rustc MIR, mirfacts, determinism of StdRng::seed_from_u64 and rand adaptors, deterministic user callbacks.',
    'DESIGN.md section 4, C07')
NOT_BUILT = ['C01', 'C02', 'C03', 'C05', 'C06', 'C08', 'C11', 'C12', 'C13', 'C15', 'C16', 'C17', 'C18', 'C19']
for p in NOT_BUILT:
    if p not in CLAIMED:
        NOT_APPLICABLE[p] = 'not built yet (static rule designed in DESIGN.md section 4; moved to claimed when its check exists)'
