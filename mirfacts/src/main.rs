// mirfacts: a rustc_private driver that serialises the type-checked program (MIR bodies with
// resolved callees, ADTs, impls) of every crate it compiles into one JSON fact file per rustc
// process.  Used as RUSTC_WORKSPACE_WRAPPER under `cargo +nightly check`.
//
// Output directory: $MIRFACTS_OUT (must exist).  File name: <crate>-<kind>-<pid>.json
#![feature(rustc_private)]
#![allow(clippy::all)]

extern crate rustc_abi;
extern crate rustc_driver;
extern crate rustc_hir;
extern crate rustc_interface;
extern crate rustc_middle;
extern crate rustc_session;
extern crate rustc_span;

mod json;

use json::J;
use rustc_driver::Compilation;
use rustc_hir::def::DefKind;
use rustc_hir::def_id::{DefId, LocalDefId};
use rustc_middle::mir::{
    self, AggregateKind, BasicBlock, Body, Const, ConstOperand, Operand, Place, PlaceElem, Rvalue,
    StatementKind, TerminatorKind, VarDebugInfoContents,
};
use rustc_middle::ty::{self, print::with_no_trimmed_paths, Ty, TyCtxt};
use rustc_span::Span;

struct Cb {
    is_test: bool,
}

impl rustc_driver::Callbacks for Cb {
    fn after_analysis<'tcx>(
        &mut self,
        _compiler: &rustc_interface::interface::Compiler,
        tcx: TyCtxt<'tcx>,
    ) -> Compilation {
        if let Ok(out) = std::env::var("MIRFACTS_OUT") {
            let only = std::env::var("MIRFACTS_CRATES").unwrap_or_default();
            let name = tcx.crate_name(rustc_hir::def_id::LOCAL_CRATE).to_string();
            if only.is_empty() || only.split(',').any(|c| c == name) {
                let j = with_no_trimmed_paths!(dump_crate(tcx, self.is_test));
                let kind = if self.is_test { "test" } else { "main" };
                let path = format!("{}/{}-{}-{}.json", out, name, kind, std::process::id());
                let tmp = format!("{}.tmp", path);
                std::fs::write(&tmp, j.to_string()).expect("mirfacts: write failed");
                std::fs::rename(&tmp, &path).expect("mirfacts: rename failed");
            }
        }
        Compilation::Continue
    }
}

fn main() -> std::process::ExitCode {
    let mut args: Vec<String> = std::env::args().collect();
    // RUSTC_WORKSPACE_WRAPPER: argv = [wrapper, rustc, args...]
    if args.len() > 1 && (args[1].ends_with("rustc") || args[1].contains("/rustc")) {
        args.remove(1);
    }
    let is_test = args.iter().any(|a| a == "--test");
    let mut cb = Cb { is_test };
    rustc_driver::install_ice_hook("mirfacts", |_| ());
    rustc_driver::catch_with_exit_code(|| rustc_driver::run_compiler(&args, &mut cb))
}

// ---------------------------------------------------------------------------------------------

fn span_j(tcx: TyCtxt<'_>, sp: Span) -> J {
    let sm = tcx.sess.source_map();
    let macs: Vec<String> = sp
        .macro_backtrace()
        .map(|e| match e.kind {
            rustc_span::ExpnKind::Macro(_, name) => name.to_string(),
            _ => "?".to_string(),
        })
        .collect();
    let desugar = match sp.ctxt().outer_expn_data().kind {
        rustc_span::ExpnKind::Desugaring(k) => Some(format!("{:?}", k)),
        _ => None,
    };
    let cs = sp.source_callsite();
    let lo = sm.lookup_char_pos(cs.lo());
    let hi = sm.lookup_char_pos(cs.hi());
    let file = match &lo.file.name {
        rustc_span::FileName::Real(r) => match r.local_path() {
            Some(p) => p.to_string_lossy().to_string(),
            None => format!("{:?}", lo.file.name),
        },
        other => format!("{:?}", other),
    };
    let mut o = vec![
        ("file", J::S(file)),
        ("l0", J::I(lo.line as i128)),
        ("c0", J::I(lo.col.0 as i128 + 1)),
        ("l1", J::I(hi.line as i128)),
        ("c1", J::I(hi.col.0 as i128 + 1)),
    ];
    if !macs.is_empty() {
        o.push(("mac", J::A(macs.into_iter().map(J::S).collect())));
    }
    if let Some(d) = desugar {
        o.push(("desugar", J::S(d)));
    }
    J::O(o)
}

fn ty_s(ty: Ty<'_>) -> J {
    J::S(ty.to_string())
}

fn place_j<'tcx>(tcx: TyCtxt<'tcx>, body: &Body<'tcx>, p: &Place<'tcx>) -> J {
    let mut proj = Vec::new();
    let mut cur_ty = mir::PlaceTy::from_ty(body.local_decls[p.local].ty);
    for elem in p.projection.iter() {
        let e = match elem {
            PlaceElem::Deref => J::S("deref".into()),
            PlaceElem::Field(f, fty) => {
                // field name where the base is an ADT
                let mut name = None;
                if let ty::Adt(adt, _) = cur_ty.ty.kind() {
                    let vidx = cur_ty.variant_index.unwrap_or(rustc_abi::FIRST_VARIANT);
                    if vidx.as_usize() < adt.variants().len() {
                        let v = adt.variant(vidx);
                        if f.as_usize() < v.fields.len() {
                            name = Some(v.fields[f].name.to_string());
                        }
                    }
                }
                J::O(vec![
                    ("f", J::I(f.as_usize() as i128)),
                    ("name", name.map(J::S).unwrap_or(J::Null)),
                    ("ty", ty_s(fty)),
                ])
            }
            PlaceElem::Index(l) => J::O(vec![("idx", J::I(l.as_usize() as i128))]),
            PlaceElem::ConstantIndex { offset, from_end, .. } => J::O(vec![
                ("cidx", J::I(offset as i128)),
                ("from_end", J::B(from_end)),
            ]),
            PlaceElem::Subslice { from, to, from_end } => J::O(vec![
                ("sub_from", J::I(from as i128)),
                ("sub_to", J::I(to as i128)),
                ("from_end", J::B(from_end)),
            ]),
            PlaceElem::Downcast(name, v) => J::O(vec![
                ("down", J::I(v.as_usize() as i128)),
                ("name", name.map(|n| J::S(n.to_string())).unwrap_or(J::Null)),
            ]),
            other => J::O(vec![("other", J::S(format!("{:?}", other)))]),
        };
        proj.push(e);
        cur_ty = cur_ty.projection_ty(tcx, elem);
    }
    J::O(vec![("l", J::I(p.local.as_usize() as i128)), ("p", J::A(proj))])
}

fn const_j<'tcx>(tcx: TyCtxt<'tcx>, tenv: ty::TypingEnv<'tcx>, c: &ConstOperand<'tcx>) -> J {
    let cst: Const<'tcx> = c.const_;
    let ty = cst.ty();
    let mut o = vec![("ty", ty_s(ty))];
    match ty.kind() {
        ty::FnDef(def_id, args) => {
            o.push(("fn", callee_j(tcx, tenv, *def_id, args)));
        }
        ty::Closure(def_id, _) => {
            o.push(("closure", J::S(tcx.def_path_str(*def_id))));
        }
        _ => {}
    }
    if let Const::Unevaluated(u, _) = cst {
        o.push(("uneval", J::S(tcx.def_path_str(u.def))));
        if let Some(p) = u.promoted {
            o.push(("promoted", J::I(p.as_usize() as i128)));
        }
    }
    let is_scalar = ty.is_bool() || ty.is_integral() || ty.is_floating_point() || ty.is_char();
    if is_scalar {
        if let Some(si) = cst.try_eval_scalar_int(tcx, tenv) {
            let size = si.size();
            let bits: u128 = si.to_bits(size);
            o.push(("bits", J::S(format!("{}", bits))));
            match ty.kind() {
                ty::Bool => o.push(("val", J::B(bits != 0))),
                ty::Float(ty::FloatTy::F64) => {
                    o.push(("fval", J::S(format!("{:?}", f64::from_bits(bits as u64)))))
                }
                ty::Float(ty::FloatTy::F32) => {
                    o.push(("fval", J::S(format!("{:?}", f32::from_bits(bits as u32)))))
                }
                ty::Int(_) => {
                    let v = size.sign_extend(bits) as i128;
                    o.push(("ival", J::S(format!("{}", v))))
                }
                ty::Uint(_) => o.push(("ival", J::S(format!("{}", bits)))),
                _ => {}
            }
        }
    }
    o.push(("dbg", J::S(format!("{}", cst))));
    J::O(o)
}

fn callee_j<'tcx>(
    tcx: TyCtxt<'tcx>,
    tenv: ty::TypingEnv<'tcx>,
    def_id: DefId,
    args: ty::GenericArgsRef<'tcx>,
) -> J {
    let mut o = vec![
        ("path", J::S(tcx.def_path_str(def_id))),
        ("full", J::S(tcx.def_path_str_with_args(def_id, args))),
        ("krate", J::S(tcx.crate_name(def_id.krate).to_string())),
        ("local", J::B(def_id.is_local())),
        ("gargs", J::A(args.iter().map(|a| J::S(a.to_string())).collect())),
    ];
    if let Some(parent) = tcx.opt_parent(def_id) {
        match tcx.def_kind(parent) {
            DefKind::Trait => {
                o.push(("trait", J::S(tcx.def_path_str(parent))));
                if args.len() > 0 {
                    if let Some(t) = args[0].as_type() {
                        o.push(("self_ty", ty_s(t)));
                    }
                }
            }
            DefKind::Impl { .. } => {
                o.push(("impl_self", ty_s(tcx.type_of(parent).instantiate_identity().skip_norm_wip())));
                if let Some(tr) = tcx.impl_opt_trait_ref(parent) {
                    o.push(("impl_trait", J::S(tcx.def_path_str(tr.skip_binder().def_id))));
                }
            }
            _ => {}
        }
    }
    o.push(("name", J::S(tcx.item_name(def_id).to_string())));
    // resolution of trait methods
    let res = std::panic::catch_unwind(std::panic::AssertUnwindSafe(|| {
        ty::Instance::try_resolve(tcx, tenv, def_id, args)
    }));
    if let Ok(Ok(Some(inst))) = res {
        let rid = inst.def_id();
        if rid != def_id {
            let mut r = vec![
                ("path", J::S(tcx.def_path_str(rid))),
                ("krate", J::S(tcx.crate_name(rid.krate).to_string())),
                ("local", J::B(rid.is_local())),
                ("kind", J::S(format!("{:?}", tcx.def_kind(rid)))),
            ];
            if let Some(parent) = tcx.opt_parent(rid) {
                if let DefKind::Impl { .. } = tcx.def_kind(parent) {
                    r.push(("impl_self", ty_s(tcx.type_of(parent).instantiate_identity().skip_norm_wip())));
                }
            }
            o.push(("resolved", J::O(r)));
        }
    }
    J::O(o)
}

fn operand_j<'tcx>(
    tcx: TyCtxt<'tcx>,
    tenv: ty::TypingEnv<'tcx>,
    body: &Body<'tcx>,
    op: &Operand<'tcx>,
) -> J {
    match op {
        Operand::Copy(p) => J::O(vec![("copy", place_j(tcx, body, p))]),
        Operand::Move(p) => J::O(vec![("move", place_j(tcx, body, p))]),
        Operand::Constant(c) => J::O(vec![("const", const_j(tcx, tenv, c))]),
        #[allow(unreachable_patterns)]
        other => J::O(vec![("otherop", J::S(format!("{:?}", other)))]),
    }
}

fn rvalue_j<'tcx>(
    tcx: TyCtxt<'tcx>,
    tenv: ty::TypingEnv<'tcx>,
    body: &Body<'tcx>,
    rv: &Rvalue<'tcx>,
) -> J {
    let op = |o: &Operand<'tcx>| operand_j(tcx, tenv, body, o);
    match rv {
        Rvalue::Use(o, ..) => J::O(vec![("k", J::S("use".into())), ("op", op(o))]),
        Rvalue::CopyForDeref(p) => J::O(vec![
            ("k", J::S("use".into())),
            ("op", J::O(vec![("copy", place_j(tcx, body, p))])),
            ("deref_copy", J::B(true)),
        ]),
        Rvalue::Ref(_, bk, p) => J::O(vec![
            ("k", J::S("ref".into())),
            ("mut", J::B(matches!(bk, mir::BorrowKind::Mut { .. }))),
            ("place", place_j(tcx, body, p)),
        ]),
        Rvalue::RawPtr(kind, p) => J::O(vec![
            ("k", J::S("rawptr".into())),
            ("mut", J::B(format!("{:?}", kind).contains("Mut"))),
            ("place", place_j(tcx, body, p)),
        ]),
        Rvalue::Cast(kind, o, ty) => J::O(vec![
            ("k", J::S("cast".into())),
            ("cast", J::S(format!("{:?}", kind))),
            ("op", op(o)),
            ("ty", ty_s(*ty)),
        ]),
        Rvalue::BinaryOp(b, ops) => J::O(vec![
            ("k", J::S("binop".into())),
            ("op", J::S(format!("{:?}", b))),
            ("a", op(&ops.0)),
            ("b", op(&ops.1)),
        ]),
        Rvalue::UnaryOp(u, o) => J::O(vec![
            ("k", J::S("unop".into())),
            ("op", J::S(format!("{:?}", u))),
            ("a", op(o)),
        ]),
        Rvalue::Discriminant(p) => {
            J::O(vec![("k", J::S("discr".into())), ("place", place_j(tcx, body, p))])
        }
        Rvalue::Repeat(o, n) => J::O(vec![
            ("k", J::S("repeat".into())),
            ("op", op(o)),
            ("n", J::S(format!("{}", n))),
        ]),
        Rvalue::Aggregate(kind, fields) => {
            let mut o = vec![("k", J::S("agg".into()))];
            match &**kind {
                AggregateKind::Array(t) => {
                    o.push(("agg", J::S("array".into())));
                    o.push(("ty", ty_s(*t)));
                }
                AggregateKind::Tuple => o.push(("agg", J::S("tuple".into()))),
                AggregateKind::Adt(did, vidx, _args, _, active) => {
                    o.push(("agg", J::S("adt".into())));
                    o.push(("adt", J::S(tcx.def_path_str(*did))));
                    o.push(("variant", J::I(vidx.as_usize() as i128)));
                    let adt = tcx.adt_def(*did);
                    let v = adt.variant(*vidx);
                    o.push(("variant_name", J::S(v.name.to_string())));
                    o.push((
                        "field_names",
                        J::A(v.fields.iter().map(|f| J::S(f.name.to_string())).collect()),
                    ));
                    if let Some(a) = active {
                        o.push(("active", J::I(a.as_usize() as i128)));
                    }
                }
                AggregateKind::Closure(did, _) => {
                    o.push(("agg", J::S("closure".into())));
                    o.push(("closure", J::S(tcx.def_path_str(*did))));
                }
                other => {
                    o.push(("agg", J::S("other".into())));
                    o.push(("dbg", J::S(format!("{:?}", other))));
                }
            }
            o.push(("fields", J::A(fields.iter().map(|f| op(f)).collect())));
            J::O(o)
        }
        other => J::O(vec![("k", J::S("other".into())), ("dbg", J::S(format!("{:?}", other)))]),
    }
}

fn bb(b: BasicBlock) -> J {
    J::I(b.as_usize() as i128)
}

fn unwind_j(u: &mir::UnwindAction) -> J {
    match u {
        mir::UnwindAction::Cleanup(b) => bb(*b),
        _ => J::Null,
    }
}

fn body_j<'tcx>(tcx: TyCtxt<'tcx>, did: LocalDefId, body: &Body<'tcx>, promoted: Option<usize>) -> J {
    let tenv = ty::TypingEnv::post_analysis(tcx, did);
    let def_id = did.to_def_id();
    let kind = tcx.def_kind(def_id);
    if let Some(pi) = promoted {
        // a promoted constant of `did`: emitted as a tiny body of its own so that `&CONST` operands can be evaluated
        let mut o = vec![
            ("path", J::S(format!("{}::{{promoted#{}}}", tcx.def_path_str(def_id), pi))),
            ("kind", J::S("Promoted".into())),
            ("span", span_j(tcx, body.span)),
            ("arg_count", J::I(0)),
        ];
        body_rest(tcx, tenv, body, &mut o);
        return J::O(o);
    }
    let mut o = vec![
        ("path", J::S(tcx.def_path_str(def_id))),
        ("kind", J::S(format!("{:?}", kind))),
        ("span", span_j(tcx, body.span)),
        ("arg_count", J::I(body.arg_count as i128)),
    ];
    if matches!(kind, DefKind::Fn | DefKind::AssocFn) {
        o.push(("pub", J::B(tcx.visibility(def_id).is_public())));
        o.push(("name", J::S(tcx.item_name(def_id).to_string())));
        let names: Vec<J> = tcx
            .fn_arg_idents(def_id)
            .iter()
            .map(|i| match i {
                Some(id) => J::S(id.name.to_string()),
                None => J::Null,
            })
            .collect();
        o.push(("params", J::A(names)));
        let sig = tcx.fn_sig(def_id).instantiate_identity().skip_norm_wip();
        o.push(("sig", J::S(format!("{}", sig))));
        o.push(("ret_ty", ty_s(sig.skip_binder().output())));
        // names of all generic parameters (parent impl first, then own), in the order of a call's generic arguments
        let mut gen_names: Vec<J> = Vec::new();
        let mut stack = Vec::new();
        let mut cur = Some(tcx.generics_of(def_id));
        while let Some(g) = cur {
            stack.push(g);
            cur = g.parent.map(|p| tcx.generics_of(p));
        }
        for g in stack.iter().rev() {
            for p in &g.own_params {
                gen_names.push(J::S(p.name.to_string()));
            }
        }
        o.push(("generics", J::A(gen_names)));
    }
    if let Some(parent) = tcx.opt_parent(def_id) {
        o.push(("parent", J::S(tcx.def_path_str(parent))));
        match tcx.def_kind(parent) {
            DefKind::Impl { .. } => {
                o.push(("impl_self", ty_s(tcx.type_of(parent).instantiate_identity().skip_norm_wip())));
                if let DefKind::Struct | DefKind::Enum = DefKind::Struct {
                    if let ty::Adt(adt, _) = tcx.type_of(parent).instantiate_identity().skip_norm_wip().kind() {
                        o.push(("impl_adt", J::S(tcx.def_path_str(adt.did()))));
                    }
                }
                if let Some(tr) = tcx.impl_opt_trait_ref(parent) {
                    let tr = tr.skip_binder();
                    o.push(("impl_trait", J::S(tcx.def_path_str(tr.def_id))));
                    o.push(("impl_trait_full", J::S(tr.to_string())));
                }
                o.push(("impl_derived", J::B(tcx.is_automatically_derived(parent))));
            }
            DefKind::Trait => {
                o.push(("in_trait", J::S(tcx.def_path_str(parent))));
            }
            _ => {}
        }
    }
    body_rest(tcx, tenv, body, &mut o);
    J::O(o)
}

fn body_rest<'tcx>(
    tcx: TyCtxt<'tcx>,
    tenv: ty::TypingEnv<'tcx>,
    body: &Body<'tcx>,
    o: &mut Vec<(&'static str, J)>,
) {
    // locals
    let mut names: Vec<Option<String>> = vec![None; body.local_decls.len()];
    let mut dbg = Vec::new();
    for v in &body.var_debug_info {
        if let VarDebugInfoContents::Place(p) = &v.value {
            if p.projection.is_empty() {
                names[p.local.as_usize()] = Some(v.name.to_string());
            }
            dbg.push(J::O(vec![
                ("name", J::S(v.name.to_string())),
                ("place", place_j(tcx, body, p)),
            ]));
        }
    }
    let locals: Vec<J> = body
        .local_decls
        .iter_enumerated()
        .map(|(l, d)| {
            J::O(vec![
                ("ty", ty_s(d.ty)),
                ("name", names[l.as_usize()].clone().map(J::S).unwrap_or(J::Null)),
                ("mut", J::B(d.mutability.is_mut())),
            ])
        })
        .collect();
    o.push(("locals", J::A(locals)));
    o.push(("debug", J::A(dbg)));

    let mut blocks = Vec::new();
    for (_b, data) in body.basic_blocks.iter_enumerated() {
        let mut stmts = Vec::new();
        for st in &data.statements {
            match &st.kind {
                StatementKind::Assign(b) => {
                    let (p, rv) = &**b;
                    stmts.push(J::O(vec![
                        ("k", J::S("assign".into())),
                        ("place", place_j(tcx, body, p)),
                        ("rv", rvalue_j(tcx, tenv, body, rv)),
                        ("span", span_j(tcx, st.source_info.span)),
                    ]));
                }
                StatementKind::SetDiscriminant { place, variant_index } => {
                    stmts.push(J::O(vec![
                        ("k", J::S("setdiscr".into())),
                        ("place", place_j(tcx, body, place)),
                        ("variant", J::I(variant_index.as_usize() as i128)),
                        ("span", span_j(tcx, st.source_info.span)),
                    ]));
                }
                StatementKind::Intrinsic(i) => {
                    stmts.push(J::O(vec![
                        ("k", J::S("intrinsic".into())),
                        ("dbg", J::S(format!("{:?}", i))),
                    ]));
                }
                _ => {}
            }
        }
        let term = data.terminator();
        let tspan = span_j(tcx, term.source_info.span);
        let op = |x: &Operand<'tcx>| operand_j(tcx, tenv, body, x);
        let t = match &term.kind {
            TerminatorKind::Goto { target } => {
                J::O(vec![("k", J::S("goto".into())), ("target", bb(*target))])
            }
            TerminatorKind::SwitchInt { discr, targets } => {
                let ts: Vec<J> = targets
                    .iter()
                    .map(|(v, t)| J::A(vec![J::S(format!("{}", v)), bb(t)]))
                    .collect();
                J::O(vec![
                    ("k", J::S("switch".into())),
                    ("discr", op(discr)),
                    ("targets", J::A(ts)),
                    ("otherwise", bb(targets.otherwise())),
                ])
            }
            TerminatorKind::Return => J::O(vec![("k", J::S("return".into()))]),
            TerminatorKind::Unreachable => J::O(vec![("k", J::S("unreachable".into()))]),
            TerminatorKind::UnwindResume => J::O(vec![("k", J::S("resume".into()))]),
            TerminatorKind::UnwindTerminate(_) => J::O(vec![("k", J::S("terminate".into()))]),
            TerminatorKind::Drop { place, target, unwind, .. } => J::O(vec![
                ("k", J::S("drop".into())),
                ("place", place_j(tcx, body, place)),
                ("target", bb(*target)),
                ("unwind", unwind_j(unwind)),
            ]),
            TerminatorKind::Call { func, args, destination, target, unwind, fn_span, .. } => {
                let f = match func {
                    Operand::Constant(c) => match c.const_.ty().kind() {
                        ty::FnDef(d, a) => callee_j(tcx, tenv, *d, a),
                        _ => J::O(vec![("indirect", op(func))]),
                    },
                    _ => J::O(vec![("indirect", op(func))]),
                };
                J::O(vec![
                    ("k", J::S("call".into())),
                    ("func", f),
                    ("args", J::A(args.iter().map(|a| op(&a.node)).collect())),
                    ("dest", place_j(tcx, body, destination)),
                    ("target", target.map(bb).unwrap_or(J::Null)),
                    ("unwind", unwind_j(unwind)),
                    ("fn_span", span_j(tcx, *fn_span)),
                ])
            }
            TerminatorKind::Assert { cond, expected, msg, target, unwind } => {
                let m = format!("{:?}", msg);
                let kind = m.split('(').next().unwrap_or("").to_string();
                J::O(vec![
                    ("k", J::S("assert".into())),
                    ("cond", op(cond)),
                    ("expected", J::B(*expected)),
                    ("msg", J::S(kind)),
                    ("target", bb(*target)),
                    ("unwind", unwind_j(unwind)),
                ])
            }
            TerminatorKind::FalseEdge { real_target, .. } => {
                J::O(vec![("k", J::S("goto".into())), ("target", bb(*real_target))])
            }
            TerminatorKind::FalseUnwind { real_target, .. } => {
                J::O(vec![("k", J::S("goto".into())), ("target", bb(*real_target))])
            }
            other => J::O(vec![
                ("k", J::S("other".into())),
                ("dbg", J::S(format!("{:?}", other))),
                (
                    "succ",
                    J::A(other.successors().map(bb).collect()),
                ),
            ]),
        };
        blocks.push(J::O(vec![
            ("stmts", J::A(stmts)),
            ("term", t),
            ("tspan", tspan),
            ("cleanup", J::B(data.is_cleanup)),
        ]));
    }
    o.push(("blocks", J::A(blocks)));
}

fn dump_crate(tcx: TyCtxt<'_>, is_test: bool) -> J {
    let name = tcx.crate_name(rustc_hir::def_id::LOCAL_CRATE).to_string();
    let mut bodies = Vec::new();
    for did in tcx.hir_body_owners() {
        let kind = tcx.def_kind(did);
        match kind {
            DefKind::Fn | DefKind::AssocFn | DefKind::Closure => {}
            _ => continue,
        }
        if tcx.is_constructor(did.to_def_id()) {
            continue;
        }
        // skip coroutine closures
        if kind == DefKind::Closure && tcx.is_coroutine(did.to_def_id()) {
            continue;
        }
        let body = tcx.optimized_mir(did);
        bodies.push(body_j(tcx, did, body, None));
        for (pi, pbody) in tcx.promoted_mir(did).iter_enumerated() {
            bodies.push(body_j(tcx, did, pbody, Some(pi.as_usize())));
        }
    }
    let mut adts = Vec::new();
    let mut impls = Vec::new();
    let mut traits = Vec::new();
    for did in tcx.hir_crate_items(()).definitions() {
        let def_id = did.to_def_id();
        match tcx.def_kind(def_id) {
            DefKind::Struct | DefKind::Enum => {
                let adt = tcx.adt_def(def_id);
                let variants: Vec<J> = adt
                    .variants()
                    .iter()
                    .map(|v| {
                        J::O(vec![
                            ("name", J::S(v.name.to_string())),
                            (
                                "fields",
                                J::A(v
                                    .fields
                                    .iter()
                                    .map(|f| {
                                        J::O(vec![
                                            ("name", J::S(f.name.to_string())),
                                            ("ty", ty_s(tcx.type_of(f.did).instantiate_identity().skip_norm_wip())),
                                            ("pub", J::B(f.vis.is_public())),
                                        ])
                                    })
                                    .collect()),
                            ),
                        ])
                    })
                    .collect();
                adts.push(J::O(vec![
                    ("path", J::S(tcx.def_path_str(def_id))),
                    ("is_enum", J::B(adt.is_enum())),
                    ("pub", J::B(tcx.visibility(def_id).is_public())),
                    ("variants", J::A(variants)),
                    ("span", span_j(tcx, tcx.def_span(def_id))),
                ]));
            }
            DefKind::Impl { .. } => {
                let mut o = vec![
                    ("path", J::S(tcx.def_path_str(def_id))),
                    ("self_ty", ty_s(tcx.type_of(def_id).instantiate_identity().skip_norm_wip())),
                    ("derived", J::B(tcx.is_automatically_derived(def_id))),
                    ("span", span_j(tcx, tcx.def_span(def_id))),
                ];
                if let ty::Adt(adt, _) = tcx.type_of(def_id).instantiate_identity().skip_norm_wip().kind() {
                    o.push(("self_adt", J::S(tcx.def_path_str(adt.did()))));
                }
                if let Some(tr) = tcx.impl_opt_trait_ref(def_id) {
                    let tr = tr.skip_binder();
                    o.push(("trait", J::S(tcx.def_path_str(tr.def_id))));
                    o.push(("trait_full", J::S(tr.to_string())));
                }
                let items: Vec<J> = tcx
                    .associated_items(def_id)
                    .in_definition_order()
                    .map(|it| {
                        J::O(vec![
                            ("name", J::S(it.name().to_string())),
                            ("path", J::S(tcx.def_path_str(it.def_id))),
                            ("kind", J::S(format!("{:?}", tcx.def_kind(it.def_id)))),
                        ])
                    })
                    .collect();
                o.push(("items", J::A(items)));
                impls.push(J::O(o));
            }
            DefKind::Trait => {
                let items: Vec<J> = tcx
                    .associated_items(def_id)
                    .in_definition_order()
                    .map(|it| {
                        J::O(vec![
                            ("name", J::S(it.name().to_string())),
                            ("kind", J::S(format!("{:?}", tcx.def_kind(it.def_id)))),
                        ])
                    })
                    .collect();
                traits.push(J::O(vec![
                    ("path", J::S(tcx.def_path_str(def_id))),
                    ("items", J::A(items)),
                ]));
            }
            _ => {}
        }
    }
    J::O(vec![
        ("crate", J::S(name)),
        ("is_test", J::B(is_test)),
        ("bodies", J::A(bodies)),
        ("adts", J::A(adts)),
        ("impls", J::A(impls)),
        ("traits", J::A(traits)),
    ])
}
