// Minimal JSON value + serialiser (no dependencies available to a rustc_private driver).
pub enum J {
    Null,
    B(bool),
    I(i128),
    S(String),
    A(Vec<J>),
    O(Vec<(&'static str, J)>),
}

impl J {
    pub fn to_string(&self) -> String {
        let mut s = String::new();
        self.write(&mut s);
        s
    }
    fn write(&self, out: &mut String) {
        match self {
            J::Null => out.push_str("null"),
            J::B(b) => out.push_str(if *b { "true" } else { "false" }),
            J::I(i) => out.push_str(&i.to_string()),
            J::S(s) => esc(s, out),
            J::A(v) => {
                out.push('[');
                for (i, x) in v.iter().enumerate() {
                    if i > 0 {
                        out.push(',');
                    }
                    x.write(out);
                }
                out.push(']');
            }
            J::O(v) => {
                out.push('{');
                for (i, (k, x)) in v.iter().enumerate() {
                    if i > 0 {
                        out.push(',');
                    }
                    esc(k, out);
                    out.push(':');
                    x.write(out);
                }
                out.push('}');
            }
        }
    }
}

fn esc(s: &str, out: &mut String) {
    out.push('"');
    for c in s.chars() {
        match c {
            '"' => out.push_str("\\\""),
            '\\' => out.push_str("\\\\"),
            '\n' => out.push_str("\\n"),
            '\r' => out.push_str("\\r"),
            '\t' => out.push_str("\\t"),
            c if (c as u32) < 0x20 => out.push_str(&format!("\\u{:04x}", c as u32)),
            c => out.push(c),
        }
    }
    out.push('"');
}
