"""Mutants (must be caught) and benign refactors (must stay silent).  Each edit is (file, old, new) with `old`
occurring exactly once.  `props` are the checks to run, `expect` the rules that must fire (empty = silent)."""
RRT = 'oxmpl/src/geometric/planners/rrt.rs'
RRTS = 'oxmpl/src/geometric/planners/rrt_star.rs'
RRTC = 'oxmpl/src/geometric/planners/rrt_connect.rs'
PRM = 'oxmpl/src/geometric/planners/prm.rs'
RV = 'oxmpl/src/base/spaces/real_vector_state_space.rs'
SO2 = 'oxmpl/src/base/spaces/so2_state_space.rs'
SO3 = 'oxmpl/src/base/spaces/so3_state_space.rs'
CSS = 'oxmpl/src/base/spaces/compound_state_space.rs'
ANY = 'oxmpl/src/base/spaces/any_state_space.rs'
SE2 = 'oxmpl/src/base/spaces/se2_state_space.rs'
PYV = 'oxmpl-py/src/base/state_validity_checker.rs'
PYG = 'oxmpl-py/src/base/goal.rs'
JSV = 'oxmpl-js/src/base/state_validity_checker.rs'

CASES = []


def case(name, props, expect, *edits):
    CASES.append({'name': name, 'props': props, 'expect': expect, 'edits': list(edits)})


# ---------------------------------------------------------------- C01
case('c01-push-regardless', ['C01'], ['C01.admit'],
     (RRT, "            if self.check_motion(q_near, &q_new) {\n                // 6. Add q_new to the tree",
           "            let _ok = self.check_motion(q_near, &q_new);\n            {\n                // 6. Add q_new to the tree"))
case('c01-push-qrand-copy', ['C01', 'C03'], ['C01.admit'],
     (RRTC, "        let mut q_new = q_near.clone();\n        let result = if",
            "        let q_other = q_target.clone();\n        let mut q_new = q_near.clone();\n        let result = if"),
     (RRTC, "                state: q_new,\n                parent_index: Some(nearest_node_index),",
            "                state: q_other,\n                parent_index: Some(nearest_node_index),"))
case('c01-kernel-skip-endpoint', ['C01'], ['C01.kernel'],
     (RRTS, "            for i in 1..=num_steps {", "            for i in 1..num_steps {"))
case('c01-kernel-short-true', ['C01'], ['C01.kernel'],
     (PRM, "            if num_steps <= 1 {\n                return vc.is_valid(to);\n            }",
           "            if num_steps <= 1 {\n                return true;\n            }"))
case('c01-prm-drop-validity', ['C01'], ['C01.admit'],
     (PRM, "            if vc.is_valid(&q_rand) {", "            if !q_rand.clone().eq_dummy() {"),
     (PRM, "impl<S, SP, G> PRM<S, SP, G>\nwhere", "trait EqDummy { fn eq_dummy(&self) -> bool { false } }\nimpl<T> EqDummy for T {}\n\nimpl<S, SP, G> PRM<S, SP, G>\nwhere"))
case('c01-gate-inverted', ['C01'], ['C01.gate'],
     (PRM, "        if !vc.is_valid(start_state) {\n            return Err(PlanningError::InvalidStartState);",
           "        if vc.is_valid(start_state) && self.roadmap.len() > usize::MAX - 1 {\n            return Err(PlanningError::InvalidStartState);"))
case('c01-gate-wrong-error', ['C01'], ['C01.gate'],
     (RRT, "        if !vc.is_valid(&pd.start_states[0]) {\n            return Err(PlanningError::InvalidStartState);",
           "        if !vc.is_valid(&pd.start_states[0]) {\n            return Err(PlanningError::NoSolutionFound);"))
case('c01-prov-return-sample', ['C01'], ['C01.prov'],
     (RRT, "            path_states.push(self.tree[index].state.clone());\n            current_index = self.tree[index].parent_index;\n        }\n        path_states.reverse();",
           "            path_states.push(self.tree[index].state.clone());\n            current_index = self.tree[index].parent_index;\n        }\n        if let Some(pd) = &self.problem_def {\n            if let Ok(s) = pd.space.sample_uniform(&mut rand::rng()) {\n                if path_states.len() > 1_000_000 {\n                    path_states.push(s);\n                }\n            }\n        }\n        path_states.reverse();"))

# ---------------------------------------------------------------- C03
case('c03-rewire-no-check', ['C03'], ['C03.link'],
     (RRTS, "                if cost_via_new_node < neighbour_node.cost\n                    && self.check_motion(&new_node_ref.state, &neighbour_node.state)\n                {",
            "                if cost_via_new_node < neighbour_node.cost {"))
case('c03-choose-parent-no-check', ['C03'], ['C03.link'],
     (RRTS, "                if cost_via_neighbour < min_cost && self.check_motion(&neighbour_node.state, &q_new)\n                {",
            "                if cost_via_neighbour < min_cost {"))
case('c03-check-other-pair', ['C03'], ['C03.link'],
     (RRTS, "                if cost_via_neighbour < min_cost && self.check_motion(&neighbour_node.state, &q_new)",
            "                if cost_via_neighbour < min_cost && self.check_motion(q_near, &q_new)"))
case('c03-prm-start-no-check', ['C03'], ['C03.link'],
     (PRM, "            if pd.space.distance(start_state, &self.roadmap[i].state) < self.connection_radius\n                && self.check_motion(start_state, &self.roadmap[i].state)\n            {",
           "            if pd.space.distance(start_state, &self.roadmap[i].state) < self.connection_radius {"))
case('c03-prm-mirror-unchecked', ['C03'], ['C03.link'],
     (PRM, "                    if dist < self.connection_radius && self.check_motion(&q_rand, &other_state) {\n                        new_node.edges.push(i);\n                        to_update.push(i);\n                    }",
           "                    if dist < self.connection_radius && self.check_motion(&q_rand, &other_state) {\n                        new_node.edges.push(i);\n                    }\n                    if dist < self.connection_radius {\n                        to_update.push(i);\n                    }"))
case('c03-res-coarse', ['C03'], ['C03.res'],
     (RRT, "(dist / (space.get_longest_valid_segment_length() * 0.1)).ceil() as usize;",
           "(dist / (space.get_longest_valid_segment_length() * 10.0)).ceil() as usize;"))
case('c03-res-threshold', ['C03'], ['C03.res'],
     (RRTC, "        if num_steps <= 1 {\n            return vc.is_valid(to);", "        if num_steps <= 20 {\n            return vc.is_valid(to);"))
case('c03-lvs-unweighted', ['C03'], ['C03.lvs'],
     (CSS, "                (component_longest_valid_segment_length * self.weights[i]).powi(2);",
           "                (component_longest_valid_segment_length).powi(2);"))

# ---------------------------------------------------------------- C07
case('c07-extra-thread-rng', ['C07'], ['C07.source'],
     (RRTS, "            let q_rand = if rng.random_bool(self.goal_bias) {",
            "            let _jitter: f64 = rand::random::<f64>();\n            let q_rand = if rng.random_bool(self.goal_bias) {"))
case('c07-seed-plus-one', ['C07'], ['C07.seed'],
     (PRM, "config.seed.map(|s| Box::new(StdRng::seed_from_u64(s)));", "config.seed.map(|s| Box::new(StdRng::seed_from_u64(s + 1)));"))
case('c07-no-restore', ['C07'], ['C07.restore'],
     (PRM, "        self.rng = Some(rng);\n        println!(", "        println!("))
case('c07-clock-scales-step', ['C07'], ['C07.clock'],
     (RRT, "                let t = self.max_distance / min_dist;",
           "                let t = (self.max_distance / min_dist) * (1.0 - start_time.elapsed().as_secs_f64() * 1e-9);"))
case('c07-fresh-rng-component', ['C07'], ['C07.flow'],
     (CSS, "            let component_state = subspace.sample_uniform_dyn(rng)?;",
           "            let _ = &rng;\n            let component_state = subspace.sample_uniform_dyn(&mut rand::rng())?;"))

# ---------------------------------------------------------------- C11 / C12
case('c11-lost-normalise', ['C11'], ['C11.lost'],
     (SO2, "        *state = state.normalise();", "        state.normalise();"))
case('c11-sample-dim0', ['C11'], ['C11.same'],
     (RV, "            let (lower, upper) = self.bounds[i];\n\n            if !lower.is_finite()", "            let (lower, upper) = self.bounds[0];\n\n            if !lower.is_finite()"))
case('c11-so3-accept-wide', ['C11'], ['C11.same'],
     (SO3, "                if distance <= *max_angle {\n                    return Ok(random_quat);", "                if distance <= *max_angle * 2.0 {\n                    return Ok(random_quat);"))
case('c12-so2-check-raw', ['C12'], ['C12.stored'],
     (SO2, "        if !(bounds.0 < bounds.1) || !(clamped_bounds.0 < clamped_bounds.1) {", "        if !(bounds.0 < bounds.1) {"))
case('c12-rv-nan', ['C12'], ['C12.nan'],
     (RV, "                    if !(bound.0 < bound.1) {", "                    if bound.0 >= bound.1 {"))
case('c12-rv-drop-len', ['C12'], ['C12.count'],
     (RV, "                if explicit_bounds.len() != dimension {", "                if explicit_bounds.len() > dimension {"))
case('c12-se2-unwrap', ['C12'], ['C12.propagate'],
     (SE2, "                        SO2StateSpace::new(Some(bounds[2]))?,", "                        SO2StateSpace::new(Some(bounds[2])).unwrap(),"))

# ---------------------------------------------------------------- C20
case('c20-py-fail-open', ['C20'], ['C20.validity'],
     (PYV, "impl StateValidityChecker<OxmplSO2State> for PyStateValidityChecker {\n    fn is_valid(&self, state: &OxmplSO2State) -> bool {\n        Python::with_gil(|py| {\n            let result: PyResult<bool> = (move || {\n                let py_state = Py::new(py, PySO2State(Arc::new(state.clone())))?;\n                let args = (py_state,);\n                let result = self.callback.call1(py, args)?;\n                result.extract(py)\n            })();\n            match result {\n                Ok(is_valid) => is_valid,\n                Err(e) => {\n                    e.print(py);\n                    false",
           "impl StateValidityChecker<OxmplSO2State> for PyStateValidityChecker {\n    fn is_valid(&self, state: &OxmplSO2State) -> bool {\n        Python::with_gil(|py| {\n            let result: PyResult<bool> = (move || {\n                let py_state = Py::new(py, PySO2State(Arc::new(state.clone())))?;\n                let args = (py_state,);\n                let result = self.callback.call1(py, args)?;\n                result.extract(py)\n            })();\n            match result {\n                Ok(is_valid) => is_valid,\n                Err(e) => {\n                    e.print(py);\n                    true"))
case('c20-py-goal-default-true', ['C20'], ['C20.goal'],
     (PYG, "                .and_then(|res| res.extract(py))\n                .unwrap_or(false)", "                .and_then(|res| res.extract(py))\n                .unwrap_or(true)"))
case('c20-py-truthy', ['C20'], ['C20.goal'],
     (PYG, "                .and_then(|res| res.extract(py))\n                .unwrap_or(false)", "                .and_then(|res| res.is_truthy(py))\n                .unwrap_or(false)"))
case('c20-js-nonbool-true', ['C20'], ['C20.validity'],
     (JSV, "                    console::warn_1(&\"State validity checker returned non-boolean value\".into());\n                    false",
           "                    console::warn_1(&\"State validity checker returned non-boolean value\".into());\n                    true"))

# ---------------------------------------------------------------- benign refactors (must stay silent)
case('benign-range-plus-one', ['C01', 'C03'], [],
     (RRT, "            for i in 1..=num_steps {", "            for i in 1..num_steps + 1 {"))
case('benign-rename-locals', ['C01', 'C03', 'C07'], [],
     (RRT, "            let mut q_new = q_near.clone();\n            if min_dist > self.max_distance {\n                // If q_rand is too far, interpolate to a point at max_distance\n                let t = self.max_distance / min_dist;\n                pd.space.interpolate(q_near, &q_rand, t, &mut q_new);\n            } else {\n                // If q_rand is close enough, just use it as q_new\n                q_new = q_rand;\n            }\n\n            // 5. Check if the motion to q_new is valid\n            if self.check_motion(q_near, &q_new) {\n                // 6. Add q_new to the tree\n                let new_node = Node {\n                    state: q_new.clone(),",
           "            let mut candidate = q_near.clone();\n            if min_dist > self.max_distance {\n                let frac = self.max_distance / min_dist;\n                pd.space.interpolate(q_near, &q_rand, frac, &mut candidate);\n            } else {\n                candidate = q_rand;\n            }\n            let q_new = candidate;\n\n            // 5. Check if the motion to q_new is valid\n            if self.check_motion(q_near, &q_new) {\n                // 6. Add q_new to the tree\n                let new_node = Node {\n                    state: q_new.clone(),"))
case('benign-so2-nan-isnan', ['C12'], [],
     (RV, "                    if !(bound.0 < bound.1) {", "                    if !(bound.1 > bound.0) {"))
