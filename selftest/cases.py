"""Mutants (must be caught) and benign refactors (must stay silent).  Each edit is (file, old, new) with `old`
occurring exactly once.  `props` are the checks to run, `expect` the rules that must fire (empty = silent)."""
RRT = 'oxmpl/src/geometric/planners/rrt.rs'
RRTS = 'oxmpl/src/geometric/planners/rrt_star.rs'
RRTC = 'oxmpl/src/geometric/planners/rrt_connect.rs'
PRM = 'oxmpl/src/geometric/planners/prm.rs'
RV = 'oxmpl/src/base/spaces/real_vector_state_space.rs'
SO2 = 'oxmpl/src/base/spaces/so2_state_space.rs'
SO3 = 'oxmpl/src/base/spaces/so3_state_space.rs'
CSS = 'oxmpl/src/base/spaces/compound_state_space.rs'
ANY = 'oxmpl/src/base/spaces/any_state_space.rs'
SE2 = 'oxmpl/src/base/spaces/se2_state_space.rs'
PYV = 'oxmpl-py/src/base/state_validity_checker.rs'
PYG = 'oxmpl-py/src/base/goal.rs'
JSV = 'oxmpl-js/src/base/state_validity_checker.rs'

CASES = []


def case(name, props, expect, *edits):
    CASES.append({'name': name, 'props': props, 'expect': expect, 'edits': list(edits)})


# ---------------------------------------------------------------- C01
case('c01-push-regardless', ['C01'], ['C01.admit'],
     (RRT, "            if self.check_motion(q_near, &q_new) {\n                // 6. Add q_new to the tree",
           "            let _ok = self.check_motion(q_near, &q_new);\n            {\n                // 6. Add q_new to the tree"))
case('c01-push-qrand-copy', ['C01', 'C03'], ['C01.admit'],
     (RRTC, "        let mut q_new = q_near.clone();\n        let result = if",
            "        let q_other = q_target.clone();\n        let mut q_new = q_near.clone();\n        let result = if"),
     (RRTC, "                state: q_new,\n                parent_index: Some(nearest_node_index),",
            "                state: q_other,\n                parent_index: Some(nearest_node_index),"))
case('c01-kernel-skip-endpoint', ['C01'], ['C01.kernel'],
     (RRTS, "            // which rounding can make differ from it.\n            vc.is_valid(to)\n", "            // which rounding can make differ from it.\n            true\n"))
case('c01-endpoint-defect-reintroduced', ['C01', 'C03'], ['C01.kernel'],
     (PRM, "            for i in 1..num_steps {", "            for i in 1..=num_steps {"),
     (PRM, "            // which rounding can make differ from it.\n            vc.is_valid(to)\n", "            // which rounding can make differ from it.\n            true\n"))
case('benign-inclusive-loop-plus-endpoint', ['C01', 'C03', 'C06'], [],
     (RRT, "            for i in 1..num_steps {", "            for i in 1..=num_steps {"))
case('c01-kernel-short-true', ['C01'], ['C01.kernel'],
     (PRM, "            if num_steps <= 1 {\n                return vc.is_valid(to);\n            }",
           "            if num_steps <= 1 {\n                return true;\n            }"))
case('c01-prm-drop-validity', ['C01'], ['C01.admit'],
     (PRM, "            if vc.is_valid(&q_rand) {", "            if !q_rand.clone().eq_dummy() {"),
     (PRM, "impl<S, SP, G> PRM<S, SP, G>\nwhere", "trait EqDummy { fn eq_dummy(&self) -> bool { false } }\nimpl<T> EqDummy for T {}\n\nimpl<S, SP, G> PRM<S, SP, G>\nwhere"))
case('c01-gate-inverted', ['C01'], ['C01.gate'],
     (PRM, "        if !vc.is_valid(start_state) {\n            return Err(PlanningError::InvalidStartState);",
           "        if vc.is_valid(start_state) && self.roadmap.len() > usize::MAX - 1 {\n            return Err(PlanningError::InvalidStartState);"))
case('c01-gate-wrong-error', ['C01'], ['C01.gate'],
     (RRT, "        if !vc.is_valid(&pd.start_states[0]) {\n            return Err(PlanningError::InvalidStartState);",
           "        if !vc.is_valid(&pd.start_states[0]) {\n            return Err(PlanningError::NoSolutionFound);"))
case('c01-prov-return-sample', ['C01'], ['C01.prov'],
     (RRT, "            path_states.push(self.tree[index].state.clone());\n            current_index = self.tree[index].parent_index;\n        }\n        path_states.reverse();",
           "            path_states.push(self.tree[index].state.clone());\n            current_index = self.tree[index].parent_index;\n        }\n        if let Some(pd) = &self.problem_def {\n            if let Ok(s) = pd.space.sample_uniform(&mut rand::rng()) {\n                if path_states.len() > 1_000_000 {\n                    path_states.push(s);\n                }\n            }\n        }\n        path_states.reverse();"))

# ---------------------------------------------------------------- C03
case('c03-rewire-no-check', ['C03'], ['C03.link'],
     (RRTS, "                if cost_via_new_node < neighbour_node.cost\n                    && self.check_motion(&new_node_ref.state, &neighbour_node.state)\n                {",
            "                if cost_via_new_node < neighbour_node.cost {"))
case('c03-choose-parent-no-check', ['C03'], ['C03.link'],
     (RRTS, "                if cost_via_neighbour < min_cost && self.check_motion(&neighbour_node.state, &q_new)\n                {",
            "                if cost_via_neighbour < min_cost {"))
case('c03-check-other-pair', ['C03'], ['C03.link'],
     (RRTS, "                if cost_via_neighbour < min_cost && self.check_motion(&neighbour_node.state, &q_new)",
            "                if cost_via_neighbour < min_cost && self.check_motion(q_near, &q_new)"))
case('c03-prm-start-no-check', ['C03'], ['C03.link'],
     (PRM, "            if pd.space.distance(start_state, &self.roadmap[i].state) < self.connection_radius\n                && self.check_motion(start_state, &self.roadmap[i].state)\n            {",
           "            if pd.space.distance(start_state, &self.roadmap[i].state) < self.connection_radius {"))
case('c03-prm-mirror-unchecked', ['C03'], ['C03.link'],
     (PRM, "                    if dist < self.connection_radius && self.check_motion(&q_rand, &other_state) {\n                        new_node.edges.push(i);\n                        to_update.push(i);\n                    }",
           "                    if dist < self.connection_radius && self.check_motion(&q_rand, &other_state) {\n                        new_node.edges.push(i);\n                    }\n                    if dist < self.connection_radius {\n                        to_update.push(i);\n                    }"))
case('c03-res-coarse', ['C03'], ['C03.res'],
     (RRT, "(dist / (space.get_longest_valid_segment_length() * 0.1)).ceil() as usize;",
           "(dist / (space.get_longest_valid_segment_length() * 10.0)).ceil() as usize;"))
case('c03-res-threshold', ['C03'], ['C03.res'],
     (RRTC, "        if num_steps <= 1 {\n            return vc.is_valid(to);", "        if num_steps <= 20 {\n            return vc.is_valid(to);"))
case('c03-lvs-unweighted', ['C03'], ['C03.lvs'],
     (CSS, "                (component_longest_valid_segment_length * self.weights[i]).powi(2);",
           "                (component_longest_valid_segment_length).powi(2);"))

# ---------------------------------------------------------------- C07
case('c07-extra-thread-rng', ['C07'], ['C07.source'],
     (RRTS, "            let q_rand = if rng.random_bool(self.goal_bias) {",
            "            let _jitter: f64 = rand::random::<f64>();\n            let q_rand = if rng.random_bool(self.goal_bias) {"))
case('c07-seed-plus-one', ['C07'], ['C07.seed'],
     (PRM, "config.seed.map(|s| Box::new(StdRng::seed_from_u64(s)));", "config.seed.map(|s| Box::new(StdRng::seed_from_u64(s + 1)));"))
case('c07-no-restore', ['C07'], ['C07.restore'],
     (PRM, "        self.rng = Some(rng);\n        println!(", "        println!("))
case('c07-clock-scales-step', ['C07'], ['C07.clock'],
     (RRT, "                let t = self.max_distance / min_dist;",
           "                let t = (self.max_distance / min_dist) * (1.0 - start_time.elapsed().as_secs_f64() * 1e-9);"))
case('c07-fresh-rng-component', ['C07'], ['C07.flow'],
     (CSS, "            let component_state = subspace.sample_uniform_dyn(rng)?;",
           "            let _ = &rng;\n            let component_state = subspace.sample_uniform_dyn(&mut rand::rng())?;"))

# ---------------------------------------------------------------- C11 / C12
case('c11-lost-normalise', ['C11'], ['C11.lost'],
     (SO2, "        *state = state.normalise();", "        state.normalise();"))
case('c11-sample-dim0', ['C11'], ['C11.same'],
     (RV, "            let (lower, upper) = self.bounds[i];\n\n            // The width has to be finite too", "            let (lower, upper) = self.bounds[0];\n\n            // The width has to be finite too"))
case('c11-so3-accept-wide', ['C11'], ['C11.same'],
     (SO3, "                if distance <= *max_angle {\n                    return Ok(random_quat);", "                if distance <= *max_angle * 2.0 {\n                    return Ok(random_quat);"))
case('c12-so2-check-raw', ['C12'], ['C12.stored'],
     (SO2, "        if !(bounds.0 < bounds.1) || !(clamped_bounds.0 < clamped_bounds.1) {", "        if !(bounds.0 < bounds.1) {"))
case('c12-rv-nan', ['C12'], ['C12.nan'],
     (RV, "                    if !(bound.0 < bound.1) {", "                    if bound.0 >= bound.1 {"))
case('c12-rv-drop-len', ['C12'], ['C12.count'],
     (RV, "                if explicit_bounds.len() != dimension {", "                if explicit_bounds.len() > dimension {"))
case('c12-se2-unwrap', ['C12'], ['C12.propagate'],
     (SE2, "                        SO2StateSpace::new(Some(bounds[2]))?,", "                        SO2StateSpace::new(Some(bounds[2])).unwrap(),"))

# ---------------------------------------------------------------- C20
case('c20-py-fail-open', ['C20'], ['C20.validity'],
     (PYV, "impl StateValidityChecker<OxmplSO2State> for PyStateValidityChecker {\n    fn is_valid(&self, state: &OxmplSO2State) -> bool {\n        Python::with_gil(|py| {\n            let result: PyResult<bool> = (move || {\n                let py_state = Py::new(py, PySO2State(Arc::new(state.clone())))?;\n                let args = (py_state,);\n                let result = self.callback.call1(py, args)?;\n                result.extract(py)\n            })();\n            match result {\n                Ok(is_valid) => is_valid,\n                Err(e) => {\n                    e.display(py);\n                    false",
           "impl StateValidityChecker<OxmplSO2State> for PyStateValidityChecker {\n    fn is_valid(&self, state: &OxmplSO2State) -> bool {\n        Python::with_gil(|py| {\n            let result: PyResult<bool> = (move || {\n                let py_state = Py::new(py, PySO2State(Arc::new(state.clone())))?;\n                let args = (py_state,);\n                let result = self.callback.call1(py, args)?;\n                result.extract(py)\n            })();\n            match result {\n                Ok(is_valid) => is_valid,\n                Err(e) => {\n                    e.display(py);\n                    true"))
case('c20-py-goal-default-true', ['C20'], ['C20.goal'],
     (PYG, "                .and_then(|res| res.extract(py))\n                .unwrap_or(false)", "                .and_then(|res| res.extract(py))\n                .unwrap_or(true)"))
case('c20-py-truthy', ['C20'], ['C20.goal'],
     (PYG, "                .and_then(|res| res.extract(py))\n                .unwrap_or(false)", "                .and_then(|res| res.is_truthy(py))\n                .unwrap_or(false)"))
case('c20-js-nonbool-true', ['C20'], ['C20.validity'],
     (JSV, "                    console::warn_1(&\"State validity checker returned non-boolean value\".into());\n                    false",
           "                    console::warn_1(&\"State validity checker returned non-boolean value\".into());\n                    true"))

# ---------------------------------------------------------------- C05
case('c05-extrapolate', ['C05'], ['C05.steer'],
     (RRT, "                let t = self.max_distance / min_dist;", "                let t = min_dist / self.max_distance;"))
case('c05-steer-from-root', ['C05'], ['C05.steer'],
     (RRT, "                pd.space.interpolate(q_near, &q_rand, t, &mut q_new);", "                pd.space.interpolate(&self.tree[0].state, &q_rand, t, &mut q_new);"))
case('c05-wrong-guard-field', ['C05'], ['C05.steer'],
     (RRTS, "            if min_dist > self.max_distance {", "            if min_dist > self.search_radius {"))
case('c05-prm-no-radius', ['C05'], ['C05.radius'],
     (PRM, "                    if dist < self.connection_radius && self.check_motion(&q_rand, &other_state) {", "                    if dist.is_finite() && self.check_motion(&q_rand, &other_state) {"))
case('c05-neighbours-unbounded', ['C05'], ['C05.radius'],
     (RRTS, "                if pd.space.distance(&node.state, &self.tree[i].state) < self.search_radius {", "                if pd.space.distance(&node.state, &self.tree[i].state) < f64::MAX {"))

# ---------------------------------------------------------------- C15
case('c15-rewire-le', ['C15'], ['C15.acyclic'],
     (RRTS, "                if cost_via_new_node < neighbour_node.cost\n", "                if cost_via_new_node <= neighbour_node.cost\n"))
case('c15-pop', ['C15'], ['C15.noremove'],
     (RRT, "                if goal.is_satisfied(&q_new) {", "                if self.tree.len() > 1_000_000 {\n                    self.tree.pop();\n                }\n                if goal.is_satisfied(&q_new) {"))
case('c15-parent-after-push', ['C15', 'C03'], ['C15.range'],
     (RRT, "                    parent_index: Some(nearest_node_index),", "                    parent_index: Some(self.tree.len()),"))
case('c15-walk-skip', ['C15'], ['C15.walk'],
     (RRT, "            current_index = self.tree[index].parent_index;", "            current_index = if index > 0 { Some(index - 1) } else { None };"))
case('c15-state-overwrite', ['C15'], ['C15.frozen'],
     (RRTS, "                    mutable_neighbour_node.parent_index = Some(new_node_index);", "                    mutable_neighbour_node.state = q_new.clone();\n                    mutable_neighbour_node.parent_index = Some(new_node_index);"))

# ---------------------------------------------------------------- C16
case('c16-farthest', ['C16'], ['C16.nearest'],
     (RRT, "                if dist < min_dist {", "                if dist > min_dist {"))
case('c16-scan-from-2', ['C16'], ['C16.nearest'],
     (RRTS, "            for i in 1..self.tree.len() {\n                let dist = pd.space.distance(&self.tree[i].state, &q_rand);", "            for i in 2..self.tree.len() {\n                let dist = pd.space.distance(&self.tree[i].state, &q_rand);"))
case('c16-min-not-updated', ['C16'], ['C16.nearest'],
     (RRT, "                    min_dist = dist;\n                    nearest_node_index = i;", "                    nearest_node_index = i;"))
case('c16-bias-swapped', ['C16'], ['C16.bias'],
     (RRT, "                goal.sample_goal(&mut rng).unwrap()\n            } else {\n                // TODO: assume uniform sampling can't fail if bounds are set correctly.\n                pd.space.sample_uniform(&mut rng).unwrap()",
           "                pd.space.sample_uniform(&mut rng).unwrap()\n            } else {\n                goal.sample_goal(&mut rng).unwrap()"))
case('c16-bias-complement', ['C16'], ['C16.bias'],
     (RRTS, "            let q_rand = if rng.random_bool(self.goal_bias) {", "            let q_rand = if rng.random_bool(1.0 - self.goal_bias) {"))
case('c16-grow-larger', ['C16'], ['C16.balance'],
     (RRTC, "                if self.start_tree.len() <= self.goal_tree.len() {", "                if self.start_tree.len() >= self.goal_tree.len() {"))
case('c16-connect-to-qrand', ['C16'], ['C16.balance'],
     (RRTC, "                    Self::extend(tree_b, q_new, pd, vc, self.max_distance)", "                    Self::extend(tree_b, &q_rand, pd, vc, self.max_distance)"))
case('c16-double-push', ['C16', 'C01'], ['C16.one'],
     (RRT, "                self.tree.push(new_node);\n", "                self.tree.push(new_node.clone());\n                self.tree.push(new_node);\n"))

# ---------------------------------------------------------------- C17
case('c17-choose-most-expensive', ['C17'], ['C17.choose'],
     (RRTS, "                if cost_via_neighbour < min_cost && self.check_motion(&neighbour_node.state, &q_new)", "                if cost_via_neighbour > min_cost && self.check_motion(&neighbour_node.state, &q_new)"))
case('c17-cost-vs-qnear', ['C17'], ['C17.cost'],
     (RRTS, "                    min_cost = cost_via_neighbour;", "                    min_cost = self.cost(&temp_node, q_near_node);"))
case('c17-rewire-no-cost', ['C17'], ['C17.rewire'],
     (RRTS, "                    mutable_neighbour_node.cost = cost_via_new_node;\n", ""))
case('c17-extra-draw', ['C17'], ['C17.sibling'],
     (RRTS, "            // 3. Find the nearest node in the tree (q_near)\n            let mut nearest_node_index = 0;", "            let _coin = rng.random_bool(0.5);\n            let mut nearest_node_index = 0;"))
case('c17-cost-fn-wrong', ['C17'], ['C17.cost'],
     (RRTS, "            neighbour_node.cost\n                + pd.space", "            current_node.cost\n                + pd.space"))
case('benign-choose-le', ['C17', 'C15'], [],
     (RRTS, "                if cost_via_neighbour < min_cost && self.check_motion(&neighbour_node.state, &q_new)", "                if cost_via_neighbour <= min_cost && self.check_motion(&neighbour_node.state, &q_new)"))

# ---------------------------------------------------------------- C02
case('c02-no-clear', ['C02'], ['C02.reroot'],
     (RRT, "        self.tree.clear();\n", ""))
case('c02-goal-on-qrand', ['C02'], ['C02.goal'],
     (RRTC, "                if is_growing_start_tree && goal.is_satisfied(q_new) {", "                if is_growing_start_tree && goal.is_satisfied(&q_rand) {"))
case('c02-direct-without-flag', ['C02'], ['C02.goal'],
     (RRTC, "                if is_growing_start_tree && goal.is_satisfied(q_new) {", "                if goal.is_satisfied(q_new) {"))
case('c02-prm-goal-unfiltered', ['C02'], ['C02.goal'],
     (PRM, "            if goal.is_satisfied(&self.roadmap[i].state) {", "            if goal.is_satisfied(&self.roadmap[i].state) || i == 0 {"))
case('c02-parentless', ['C02'], ['C02.parentless'],
     (RRTS, "                parent_index: Some(best_parent_index),", "                parent_index: if min_cost.is_nan() { None } else { Some(best_parent_index) },"))
case('c02-prm-setproblem-clears', ['C02'], ['C02.reroot'],
     (PRM, "        self.problem_def = Some(pd);\n    }", "        self.problem_def = Some(pd);\n        self.roadmap.clear();\n    }"))
case('c02-root-before-store', ['C02'], ['C02.reroot'],
     (RRTS, "        self.problem_def = Some(problem_def);\n        self.validity_checker = Some(validity_checker);\n        self.tree.clear();\n\n        // Initialise the tree with the start state.\n        let start_state = self.problem_def.as_ref().unwrap().start_states[0].clone();",
            "        let start_state = match self.problem_def.as_ref() {\n            Some(old) => old.start_states[0].clone(),\n            None => problem_def.start_states[0].clone(),\n        };\n        self.problem_def = Some(problem_def);\n        self.validity_checker = Some(validity_checker);\n        self.tree.clear();\n"))

# ---------------------------------------------------------------- C18
case('c18-one-directional', ['C18'], ['C18.sym'],
     (PRM, "                        new_node.edges.push(i);\n                        to_update.push(i);", "                        new_node.edges.push(i);"))
case('c18-dfs', ['C18'], ['C18.bfs'],
     (PRM, "        while let Some(current_idx) = queue.pop_front() {", "        while let Some(current_idx) = queue.pop_back() {"))
case('c18-mark-on-dequeue', ['C18'], ['C18.bfs'],
     (PRM, "                    visited[neighbor_idx] = true;\n", "                    visited[current_idx] = true;\n"))
case('c18-reconstruct-appends', ['C18'], ['C18.idempotent'],
     (PRM, "                self.roadmap.len()\n            );\n\n            return Ok(());\n        }", "                self.roadmap.len()\n            );\n        }"))
case('c18-drop-accepted', ['C18'], ['C18.milestone'],
     (PRM, "            if vc.is_valid(&q_rand) {", "            if vc.is_valid(&q_rand) && self.roadmap.len() % 2 == 0 {"))
case('c18-setproblem-drops-checker', ['C18'], ['C18.reuse'],
     (PRM, "        self.problem_def = Some(pd);\n    }", "        self.problem_def = Some(pd);\n        self.validity_checker = None;\n    }"))
case('c18-mirror-wrong-index', ['C18'], ['C18.sym'],
     (PRM, "                    self.roadmap[i].edges.push(new_node_idx);", "                    self.roadmap[i].edges.push(i);"))
case('c18-parent-not-dequeued', ['C18'], ['C18.bfs'],
     (PRM, "                    parent_map.insert(neighbor_idx, Some(current_idx));", "                    parent_map.insert(neighbor_idx, Some(neighbor_idx));"))

# ---------------------------------------------------------------- C13
case('c13-unweighted-distance', ['C13'], ['C13.depends'],
     (CSS, "            total_dist_sq += (component_dist * self.weights[i]).powi(2);", "            total_dist_sq += (component_dist).powi(2);"))
case('c13-loop-short', ['C13'], ['C13.index'],
     (CSS, "        for i in 0..self.subspaces.len() {\n            self.subspaces[i].enforce_bounds_dyn(", "        for i in 0..self.subspaces.len().saturating_sub(1) {\n            self.subspaces[i].enforce_bounds_dyn("))
case('c13-weights0', ['C13'], ['C13.index'],
     (CSS, "            total_dist_sq += (component_dist * self.weights[i]).powi(2);", "            total_dist_sq += (component_dist * self.weights[0]).powi(2);"))
case('c13-satisfies-early-true', ['C13'], ['C13.index'],
     (CSS, "            if !self.subspaces[i].satisfies_bounds_dyn(&*state.components[i]) {\n                return false;\n            }", "            if self.subspaces[i].satisfies_bounds_dyn(&*state.components[i]) {\n                return true;\n            }"))
case('c13-swapped-forwarders', ['C13'], ['C13.match'],
     (ANY, "        self.enforce_bounds(state_s);", "        let _ = self.satisfies_bounds(state_s);"))
case('c13-interpolate-args-swapped', ['C13'], ['C13.match'],
     (ANY, "        self.interpolate(from_s, to_s, t, state_s);", "        self.interpolate(to_s, from_s, t, state_s);"))
case('c13-se2-weights-swapped', ['C13'], ['C13.se'],
     (SE2, "vec![1.0, weight]", "vec![weight, 1.0]"))
case('c13-component-index-other-state', ['C13'], ['C13.index'],
     (CSS, "                self.subspaces[i].distance_dyn(&*state1.components[i], &*state2.components[i]);", "                self.subspaces[i].distance_dyn(&*state1.components[i], &*state1.components[i]);"))

# ---------------------------------------------------------------- C19
PYRS = 'oxmpl-py/src/geometric/rrt_star.rs'
PYPRM = 'oxmpl-py/src/geometric/prm.rs'
PYSO2 = 'oxmpl-py/src/base/so2_state_space.rs'
PYSO3 = 'oxmpl-py/src/base/so3_state_space.rs'
PYPL = 'oxmpl-py/src/base/planner.rs'
PYCONV = 'oxmpl-py/src/base/py_state_convert.rs'
case('c19-args-swapped', ['C19'], ['C19.args'],
     (PYRS, "RrtStarForSO2::new(max_distance, goal_bias, search_radius, &planner_config.0);", "RrtStarForSO2::new(goal_bias, max_distance, search_radius, &planner_config.0);"))
case('c19-prm-args-swapped', ['C19'], ['C19.args'],
     (PYPRM, "PrmForSE3::new(timeout, connection_radius, &planner_config.0);", "PrmForSE3::new(connection_radius, timeout, &planner_config.0);"))
case('c19-arg-scaled', ['C19'], ['C19.args'],
     (PYRS, "RrtStarForSE2::new(max_distance, goal_bias, search_radius, &planner_config.0);", "RrtStarForSE2::new(max_distance * 1.000001, goal_bias, search_radius, &planner_config.0);"))
case('c19-solve-arm-missing', ['C19'], ['C19.dispatch'],
     (PYRS, "            PlannerVariant::SE3(p) => {\n                let result = p.borrow_mut().solve(timeout);", "            PlannerVariant::SE3(p) => {\n                let _ = p;\n                let result: Result<oxmpl::base::planner::Path<SE3State>, oxmpl::base::error::PlanningError> =\n                    Err(oxmpl::base::error::PlanningError::Timeout);"))
case('c19-ctor-unwrap', ['C19'], ['C19.errors'],
     (PYSO2, "        match OxmplSO2StateSpace::new(bounds) {\n            Ok(space) => Ok(Self(Arc::new(Mutex::new(space)))),\n            Err(e) => Err(PyValueError::new_err(e.to_string())),\n        }",
             "        let _ = PyValueError::new_err(\"unused\");\n        Ok(Self(Arc::new(Mutex::new(OxmplSO2StateSpace::new(bounds).unwrap()))))"))
case('c19-seed-plus', ['C19'], ['C19.seed'],
     (PYPL, "        let planner_config = OxmplPlannerConfig { seed };", "        let planner_config = OxmplPlannerConfig { seed: seed.map(|s| s + 1) };"))
case('c19-convert-normalise', ['C19'], ['C19.lossless'],
     (PYCONV, "        PySO2State(Arc::new(self.clone()))", "        PySO2State(Arc::new(OxmplSO2State::new(self.value)))"))

# ---------------------------------------------------------------- C06
case('c06-no-deadline', ['C06'], ['C06.loops'],
     (RRT, "            if start_time.elapsed() > timeout {\n                self.rng = Some(rng);\n                return Err(PlanningError::Timeout);\n            }\n", "            let _ = (&start_time, &timeout);\n"))
case('c06-clock-restarted', ['C06'], ['C06.deadline'],
     (RRTS, "        loop {\n            // 1. Check for timeout\n            if start_time.elapsed() > timeout {", "        loop {\n            let start_time = Instant::now();\n            if start_time.elapsed() > timeout {"))
case('c06-timeout-scaled', ['C06'], ['C06.deadline'],
     (RRTC, "            if start_time.elapsed() > timeout {", "            if start_time.elapsed() > timeout * 2 {"))
case('c06-retry-loop', ['C06'], ['C06.loops'],
     (PRM, "            let q_rand = pd.space.sample_uniform(&mut *rng).unwrap();", "            let q_rand = loop {\n                if let Ok(s) = pd.space.sample_uniform(&mut *rng) {\n                    break s;\n                }\n            };"))
case('c06-setter-zero', ['C06'], ['C06.divisor'],
     (RV, "        } else if fraction > 1.0 || fraction.is_nan() {\n            self.longest_valid_segment_fraction = 1.;\n        }", "        } else if fraction > 1.0 || fraction.is_nan() {\n            self.longest_valid_segment_fraction = 1.;\n        } else {\n            self.longest_valid_segment_fraction = 0.;\n        }"))
case('c06-bfs-exhausted-timeout', ['C06'], ['C06.errors'],
     (PRM, "        let goal_node_idx = goal_reached.ok_or(PlanningError::NoSolutionFound)?;", "        let goal_node_idx = goal_reached.ok_or(PlanningError::PlannerUninitialised)?;"))
case('c06-timeout-wrong-error', ['C06'], ['C06.deadline'],
     (RRTS, "                self.rng = Some(rng);\n                return Err(PlanningError::Timeout);", "                self.rng = Some(rng);\n                return Err(PlanningError::NoSolutionFound);"))

# ---------------------------------------------------------------- C08
case('c08-gate-unwrap', ['C08'], ['C08.gates', 'C08.panics'],
     (RRTS, "        let pd = self\n            .problem_def\n            .as_ref()\n            .ok_or(PlanningError::PlannerUninitialised)?;", "        let pd = self.problem_def.as_ref().unwrap();"))
case('c08-unsampled-wrong-variant', ['C08'], ['C08.gates'],
     (PRM, "            return Err(PlanningError::UnsampledStateSpace);", "            return Err(PlanningError::NoSolutionFound);"))
case('c08-new-unwrap', ['C08'], ['C08.panics'],
     (RRT, "            let q_near = &self.tree[nearest_node_index].state;", "            let _last = self.goal_bias.partial_cmp(&self.max_distance).unwrap();\n            let q_near = &self.tree[nearest_node_index].state;"))
case('c08-checker-cleared', ['C08'], ['C08.init'],
     (PRM, "        self.problem_def = Some(pd);\n    }", "        self.problem_def = Some(pd);\n        self.validity_checker = None;\n    }"))
case('c08-index-before-check', ['C08'], ['C08.panics'],
     (PRM, "        if start_connections.is_empty() || goal_indices.is_empty() {", "        let _first_goal = goal_indices[0];\n        if start_connections.is_empty() || goal_indices.is_empty() {"))
case('c08-explicit-panic', ['C08'], ['C08.panics'],
     (RRTC, "        let goal = &pd.goal;\n\n        // The start state is the root", "        let goal = &pd.goal;\n        assert!(self.max_distance > 0.0, \"max_distance must be positive\");\n\n        // The start state is the root"))

# ---------------------------------------------------------------- benign refactors (must stay silent)
case('benign-range-plus-one', ['C01', 'C03'], [],
     (RRT, "            for i in 1..num_steps {", "            for i in 1..num_steps + 1 {"))
case('benign-endpoint-named', ['C01', 'C03', 'C06'], [],
     (RRT, "            // which rounding can make differ from it.\n            vc.is_valid(to)\n", "            let end_state_ok = vc.is_valid(to);\n            end_state_ok\n"))
case('benign-rename-locals', ['C01', 'C03', 'C07'], [],
     (RRT, "            let mut q_new = q_near.clone();\n            if min_dist > self.max_distance {\n                // If q_rand is too far, interpolate to a point at max_distance\n                let t = self.max_distance / min_dist;\n                pd.space.interpolate(q_near, &q_rand, t, &mut q_new);\n            } else {\n                // If q_rand is close enough, just use it as q_new\n                q_new = q_rand;\n            }\n\n            // 5. Check if the motion to q_new is valid\n            if self.check_motion(q_near, &q_new) {\n                // 6. Add q_new to the tree\n                let new_node = Node {\n                    state: q_new.clone(),",
           "            let mut candidate = q_near.clone();\n            if min_dist > self.max_distance {\n                let frac = self.max_distance / min_dist;\n                pd.space.interpolate(q_near, &q_rand, frac, &mut candidate);\n            } else {\n                candidate = q_rand;\n            }\n            let q_new = candidate;\n\n            // 5. Check if the motion to q_new is valid\n            if self.check_motion(q_near, &q_new) {\n                // 6. Add q_new to the tree\n                let new_node = Node {\n                    state: q_new.clone(),"))
case('benign-so2-nan-isnan', ['C12'], [],
     (RV, "                    if !(bound.0 < bound.1) {", "                    if !(bound.1 > bound.0) {"))

# ---------------------------------------------------------------- more benign refactors (must stay silent)
TREE_PROPS = ['C01', 'C02', 'C03', 'C05', 'C06', 'C07', 'C08', 'C15', 'C16', 'C17']
case('benign-rename-check-motion', TREE_PROPS, [],
     (RRT, "    fn check_motion(&self, from: &S, to: &S) -> bool {", "    fn is_motion_valid(&self, from: &S, to: &S) -> bool {"),
     (RRT, "            if self.check_motion(q_near, &q_new) {", "            if self.is_motion_valid(q_near, &q_new) {"))
case('benign-steer-min', TREE_PROPS, [],
     (RRT, "            if min_dist > self.max_distance {\n                // If q_rand is too far, interpolate to a point at max_distance\n                let t = self.max_distance / min_dist;\n                pd.space.interpolate(q_near, &q_rand, t, &mut q_new);\n            } else {\n                // If q_rand is close enough, just use it as q_new\n                q_new = q_rand;\n            }",
           "            let t = (self.max_distance / min_dist).min(1.0);\n            pd.space.interpolate(q_near, &q_rand, t, &mut q_new);"))
case('benign-nearest-enumerate', TREE_PROPS, [],
     (RRT, "            for i in 1..self.tree.len() {\n                let dist = pd.space.distance(&self.tree[i].state, &q_rand);", "            for (i, node) in self.tree.iter().enumerate().skip(1) {\n                let dist = pd.space.distance(&node.state, &q_rand);"))
case('benign-accessor', TREE_PROPS, [],
     (RRT, "    fn reconstruct_path(&self, start_node_idx: usize) -> Path<S> {", "    /// Number of nodes currently in the tree.\n    pub fn tree_size(&self) -> usize {\n        self.tree.len()\n    }\n\n    fn reconstruct_path(&self, start_node_idx: usize) -> Path<S> {"))
case('benign-reorder-clock', TREE_PROPS, [],
     (RRT, "        let mut rng = self\n            .rng\n            .take()\n            .unwrap_or_else(|| Box::new(StdRng::from_os_rng()));\n        let start_time = Instant::now();", "        let start_time = Instant::now();\n        let mut rng = self\n            .rng\n            .take()\n            .unwrap_or_else(|| Box::new(StdRng::from_os_rng()));"))
case('benign-gate-on-root', TREE_PROPS, [],
     (RRT, "        if !vc.is_valid(&pd.start_states[0]) {", "        if !vc.is_valid(&self.tree[0].state) {"))
# (until round 18 this edit was carried as benign; C18 says two milestones are linked only if *closer than* the radius - DESIGN 10.30)
case('c18-prm-le-radius', ['C18'], ['C18.guards'],
     (PRM, "                    if dist < self.connection_radius && self.check_motion(&q_rand, &other_state) {", "                    if dist <= self.connection_radius && self.check_motion(&q_rand, &other_state) {"))
case('benign-prm-le-radius-other-checks', ['C01', 'C03', 'C05', 'C08', 'C06'], [],
     (PRM, "                    if dist < self.connection_radius && self.check_motion(&q_rand, &other_state) {", "                    if dist <= self.connection_radius && self.check_motion(&q_rand, &other_state) {"))
case('c18-prm-skip-form-not-strict', ['C18'], ['C18.guards'],
     (PRM, "                    if dist < self.connection_radius && self.check_motion(&q_rand, &other_state) {", "                    if dist > self.connection_radius {\n                        continue;\n                    }\n                    if self.check_motion(&q_rand, &other_state) {"))
case('benign-prm-skip-form-strict', ['C01', 'C03', 'C05', 'C18', 'C08', 'C06'], [],
     (PRM, "                    if dist < self.connection_radius && self.check_motion(&q_rand, &other_state) {", "                    if dist >= self.connection_radius {\n                        continue;\n                    }\n                    if self.check_motion(&q_rand, &other_state) {"))
case('benign-prm-start-connection-le-radius', ['C05', 'C18'], [],
     (PRM, "            if pd.space.distance(start_state, &self.roadmap[i].state) < self.connection_radius", "            if pd.space.distance(start_state, &self.roadmap[i].state) <= self.connection_radius"))
case('benign-prm-iter-start-connections', ['C01', 'C02', 'C03', 'C05', 'C18', 'C08', 'C06'], [],
     (PRM, "        for idx in &start_connections {\n            queue.push_back(*idx);\n            parent_map.insert(*idx, None);\n            visited[*idx] = true;\n        }", "        for &root in start_connections.iter() {\n            queue.push_back(root);\n            parent_map.insert(root, None);\n            visited[root] = true;\n        }"))
case('benign-so3-sampler-satisfies', ['C11', 'C06', 'C08'], [],
     (SO3, "                let distance = self.distance(center_rotation, &random_quat);\n                if distance <= *max_angle {\n                    return Ok(random_quat);", "                if self.satisfies_bounds(&random_quat) {\n                    return Ok(random_quat);"))
case('benign-rv-explicit-isnan', ['C12', 'C11'], [],
     (RV, "                    #[allow(clippy::neg_cmp_op_on_partial_ord)]\n                    if !(bound.0 < bound.1) {", "                    if bound.0.is_nan() || bound.1.is_nan() || bound.0 >= bound.1 {"))
case('benign-rrtstar-cost-local', ['C15', 'C17', 'C03', 'C05'], [],
     (RRTS, "                    let mutable_neighbour_node = &mut self.tree[neighbour_idx];\n                    mutable_neighbour_node.parent_index = Some(new_node_index);\n                    mutable_neighbour_node.cost = cost_via_new_node;", "                    let rewired = &mut self.tree[neighbour_idx];\n                    rewired.cost = cost_via_new_node;\n                    rewired.parent_index = Some(new_node_index);"))
case('benign-connect-lt', ['C16', 'C02', 'C01'], [],
     (RRTC, "                if self.start_tree.len() <= self.goal_tree.len() {", "                if self.start_tree.len() < self.goal_tree.len() + 1 {"))

# ---------------------------------------------------------------- C09 / C10 (range clauses) and more benign cases
SO2S = 'oxmpl/src/base/states/so2_state.rs'
case('c09-so3-no-clamp', ['C09'], ['C09.range'],
     (SO3, "        let clamped_dot = abs_dot.min(1.0);", "        let clamped_dot = abs_dot;"))
case('c09-so2-no-wrap', ['C09'], ['C09.range'],
     (SO2, "        let mut diff = state1.value - state2.value;\n        diff = (diff + PI).rem_euclid(2.0 * PI) - PI;\n        diff.abs()", "        let diff = state1.value - state2.value;\n        diff.abs()"))
case('c09-rv-signed-sum', ['C09'], ['C09.range'],
     (RV, "            .map(|(v1, v2)| (v1 - v2).powi(2))\n            .sum::<f64>()\n            .sqrt()", "            .map(|(v1, v2)| (v1 - v2).powi(3))\n            .sum::<f64>()\n            .sqrt()"))
case('c10-so2-no-normalise', ['C10'], ['C10.canon'],
     (SO2, "        out_state.value = from.value + diff_to_from * t;\n        out_state.value = out_state.normalise().value;", "        out_state.value = from.value + diff_to_from * t;"))
case('c12-so2state-no-wrap', ['C12', 'C10'], ['C12.range', 'C10.canon'],
     (SO2S, "    pub fn new(val: f64) -> Self {\n        SO2State {\n            value: (val + PI).rem_euclid(2.0 * PI) - PI,", "    pub fn new(val: f64) -> Self {\n        SO2State {\n            value: val,"))
case('benign-so2-distance-rem', ['C09'], [],
     (SO2, "        let mut diff = state1.value - state2.value;\n        diff = (diff + PI).rem_euclid(2.0 * PI) - PI;\n        diff.abs()", "        let diff = state1.value - state2.value;\n        PI - ((diff.abs() % (2.0 * PI)) - PI).abs()"))
case('benign-compound-zip', ['C13', 'C08', 'C06'], [],
     (CSS, "        for i in 0..self.subspaces.len() {\n            self.subspaces[i].enforce_bounds_dyn(&mut *state.components[i]);\n        }", "        for (subspace, component) in self.subspaces.iter().zip(state.components.iter_mut()) {\n            subspace.enforce_bounds_dyn(&mut **component);\n        }"))


# ---------------------------------------------------------------- seeded changes written by independent sub-agents
# (patch files under /verif/seeded/<id>/patch.diff; see meta.json there)
def seeded(name, props, expect):
    CASES.append({'name': name, 'props': props, 'expect': expect, 'edits': [], 'patch': '/verif/seeded/%s/patch.diff' % name.split('-')[1]})


seeded('seeded-C01-prm-keeps-roadmap', ['C01', 'C02'], ['C01.recheck', 'C02.reroot'])
seeded('seeded-C02-goal-cache', ['C02'], ['C02.goal'])
seeded('seeded-C03-step-cap', ['C03'], ['C03.res'])
seeded('seeded-C06-build-ignores-deadline', ['C06'], ['C06.loops'])
seeded('seeded-C07-take-before-gates', ['C07'], ['C07.restore'])
seeded('seeded-C08-goal-cache', ['C08', 'C02'], ['C08.init', 'C02.goal'])
seeded('seeded-C11-half-bounded-skip', ['C11', 'C08'], ['C11.same'])
seeded('seeded-C12-pi-boundary', ['C12'], ['C12.stored'])
seeded('seeded-C13-lazy-enforce', ['C13'], ['C13.match'])
seeded('seeded-C15-tie-rewire', ['C15'], ['C15.acyclic'])
seeded('seeded-C16-bias-start-tree-only', ['C16'], ['C16.bias'])
seeded('seeded-C17-lazy-choose-parent', ['C17', 'C05', 'C15'], ['C17.choose'])
seeded('seeded-C18-goal-at-generation', ['C18', 'C02'], ['C18.bfs', 'C02.goal'])
seeded('seeded-C19-normalise-on-entry', ['C19'], ['C19.lossless'])
seeded('seeded-C20-dunder-bool', ['C20'], ['C20.validity'])

# round 2 of seeded changes
seeded('seeded-R2C01-zero-steps-true', ['C01'], ['C01.kernel'])
seeded('seeded-R2C03-rewire-cache', ['C03'], ['C03.link'])
seeded('seeded-R2C07-thread-rng-cone', ['C07'], ['C07.source'])
seeded('seeded-R2C08-get-or-insert', ['C08', 'C02'], ['C08.init', 'C02.reroot'])
seeded('seeded-R2C13-epsilon-skip', ['C13'], ['C13.index'])
seeded('seeded-R2C15-enforce-after-check', ['C01', 'C03', 'C05'], ['C01.admit', 'C03.link', 'C05.radius'])


# ---------------------------------------------------------------- behaviour-preserving refactorings written by independent
# sub-agents (selftest/benign/*.diff, each with the agent's equivalence notes in the .md next to it): no check may fire
ALL = ['C01', 'C02', 'C03', 'C04', 'C05', 'C06', 'C07', 'C08', 'C09', 'C10', 'C11', 'C12', 'C13', 'C14', 'C15', 'C16', 'C17', 'C18', 'C19', 'C20']


def benign_patch(name, props):
    CASES.append({'name': 'benign-' + name, 'props': props, 'expect': [], 'edits': [], 'patch': '/verif/selftest/benign/%s.diff' % name})


benign_patch('ben1-r1', ALL)                                   # shared motion_is_valid in planners/mod.rs
benign_patch('ben1-r2', ALL)                                   # nearest()/steer() helpers in RRT and RRT*
benign_patch('ben2-r1', ALL)                                   # PRM find_linkable_neighbours()/add_milestone()
benign_patch('ben2-r2', ALL)                                   # PRM search() helper returning Result<(parents, goal), _>
benign_patch('ben2-r3', ['C09', 'C10', 'C11', 'C12', 'C13', 'C06', 'C08'])   # RealVector zip / all(|i| ..)
benign_patch('ben2-r4', ['C09', 'C10', 'C11', 'C12', 'C13', 'C06', 'C07', 'C08'])   # SO3 center()/max_angle()/dot(), SO2 wrap()
benign_patch('ben3-r1', ['C19', 'C20'])                        # one generic Python validity adapter
benign_patch('ben3-r2', ['C19', 'C20'])                        # shared ProblemDefinition constructor
benign_patch('ben3-r3', ['C19', 'C20'])                        # macro_rules! arms in the Python RRT wrapper
benign_patch('ben4-r1', ALL)                                   # read-only accessors
benign_patch('ben4-r2', ['C02', 'C09', 'C19'])                 # Path::path_length
benign_patch('ben4-r3', ALL)                                   # RRT iteration counter
benign_patch('ben4-r4', ALL)                                   # hoisted `let space = &pd.space`
benign_patch('c13-zero-weight-skip', ['C13', 'C09', 'C06', 'C08'])
benign_patch('c08-option-insert', ['C08', 'C02', 'C01', 'C18', 'C07'])
case('benign-rrt-eq0-threshold', ['C01', 'C03', 'C06'], [],
     (RRT, "            if num_steps <= 1 {\n                return vc.is_valid(to);", "            if num_steps == 0 {\n                return vc.is_valid(to);"))

# round 3 of seeded changes
seeded('seeded-R3C02-root-enforced', ['C02', 'C01'], ['C02.reroot', 'C01.root'])
seeded('seeded-R3C05-step-floor', ['C05'], ['C05.steer'])
seeded('seeded-R3C06-goal-cache', ['C02'], ['C02.goal'])
seeded('seeded-R3C11-compound-skip-enforce', ['C13'], ['C13.match'])
seeded('seeded-R3C12-clamp-keeps-nan', ['C12'], ['C12.nan'])
seeded('seeded-R3C16-bias-one-excluded', ['C16'], ['C16.bias'])
seeded('seeded-R3C17-cost-without-parent', ['C17', 'C15'], ['C17.rewire', 'C15.acyclic'])
seeded('seeded-R3C18-goal-not-start-connection', ['C18', 'C02', 'C03', 'C05'], ['C18.query'])
seeded('seeded-R3C19-seed-through-f64', ['C19'], ['C19.seed'])
seeded('seeded-R3C20-attribute-error-fallback', ['C20'], ['C20.goal'])
benign_patch('prm-single-pass-query', ALL)
benign_patch('ben5-r1', ALL)                                   # RRT* choose_parent() helper
benign_patch('ben6-r2', ['C09', 'C10', 'C11', 'C12', 'C06', 'C07', 'C08'])   # SO2 lower()/upper() accessors
benign_patch('ben6-r3', ['C13', 'C08', 'C06', 'C09', 'C11'])   # AnyStateSpace downcast helpers
benign_patch('ben6-r4', ['C09', 'C10', 'C11', 'C12', 'C08'])   # wrap_to_pi / norm helpers in the states
benign_patch('ben7-r1', ['C19', 'C20'])                        # JS goal adapter method() helper
benign_patch('ben7-r2', ['C19', 'C20'])                        # JS RRT-Connect macro arms


# ---------------------------------------------------------------- C14 (partial): sampler constructions
case('c14-so3-no-ball-rejection', ['C14'], ['C14.so3'],
     (SO3, "            if norm_sq > 1e-9 && norm_sq < 1.0 {", "            if norm_sq > 1e-9 {"))
case('c14-so3-asymmetric-draw', ['C14'], ['C14.so3'],
     (SO3, "            let w: f64 = rng.random_range(-1.0..1.0);", "            let w: f64 = rng.random_range(0.0..1.0);"))
case('c14-so3-reused-draw', ['C14'], ['C14.so3'],
     (SO3, "            let z: f64 = rng.random_range(-1.0..1.0);", "            let z: f64 = y;"))
case('c14-so3-norm-misses-component', ['C14'], ['C14.so3'],
     (SO3, "            let norm_sq = x * x + y * y + z * z + w * w;", "            let norm_sq = x * x + y * y + z * z + z * z;"))
case('c14-so3-cone-on-other-state', ['C14'], ['C14.so3'],
     (SO3, "                let distance = self.distance(center_rotation, &random_quat);\n                if distance <= *max_angle {",
      "                let distance = self.distance(center_rotation, center_rotation);\n                if distance <= *max_angle {"))
case('c14-so2-folded-draw', ['C14'], ['C14.draw'],
     (SO2, "            value: rng.random_range(lower..upper),", "            value: rng.random_range(lower..upper).abs(),"))
case('c14-so2-half-range', ['C14'], ['C14.draw'],
     (SO2, "            value: rng.random_range(lower..upper),", "            value: rng.random_range(lower..(lower + upper) / 2.0),"))
case('c14-rv-average-of-two', ['C14'], ['C14.draw'],
     (RV, "            values.push(rng.random_range(lower..upper));", "            values.push((rng.random_range(lower..upper) + rng.random_range(lower..upper)) / 2.0);"))
case('c14-rv-wrong-dimension-bounds', ['C14'], ['C14.draw'],
     (RV, "            let (lower, upper) = self.bounds[i];\n\n            // The width has to be finite too", "            let (lower, upper) = self.bounds[0];\n\n            // The width has to be finite too"))
seeded('seeded-R2C07-thread-rng-cone-c14', ['C14'], ['C14.so3'])
case('benign-c14-so3-le-one', ['C14', 'C11', 'C06'], [],
     (SO3, "            if norm_sq > 1e-9 && norm_sq < 1.0 {", "            if norm_sq > 1e-9 && norm_sq <= 1.0 {"))
case('benign-c14-so3-rename', ['C14', 'C11', 'C06'], [],
     (SO3, "                let distance = self.distance(center_rotation, &random_quat);\n                if distance <= *max_angle {",
      "                let deviation = self.distance(center_rotation, &random_quat);\n                if deviation <= *max_angle {"))
case('benign-c14-rv-inclusive', ['C14', 'C11', 'C12'], [],
     (RV, "            values.push(rng.random_range(lower..upper));", "            let coordinate = rng.random_range(lower..=upper);\n            values.push(coordinate);"))


# ---------------------------------------------------------------- C11.accept (the SO2 defect repaired by cbdf97e)
case('c11-so2-check-rewraps', ['C11'], ['C11.accept'],
     (SO2, "        if value >= -PI && value <= PI {\n            return value >= lower && value <= upper;\n        }\n", ""))
case('c11-so2-check-strict-upper', ['C11'], ['C11.accept'],
     (SO2, "            return value >= lower && value <= upper;", "            return value >= lower && value < upper;"))
case('benign-c11-so2-check-reordered', ['C11', 'C12', 'C14'], [],
     (SO2, "            return value >= lower && value <= upper;", "            return value <= upper && value >= lower;"))


# round 4 of seeded changes
seeded('seeded-R4C01-connect-skips-endpoint', ['C01'], ['C01.kernel'])
seeded('seeded-R4C03-stale-resolution', ['C03'], ['C03.res'])
seeded('seeded-R4C07-deadline-in-neighbour-loop', ['C07'], ['C07.clock'])
seeded('seeded-R4C08-instant-plus-timeout', ['C08', 'C06', 'C07'], ['C08.panics'])
seeded('seeded-R4C09-single-fold-distance', ['C09'], ['C09.range'])
seeded('seeded-R4C10-raw-difference', ['C10'], ['C10.arc'])
seeded('seeded-R4C13-endpoint-fast-path', ['C13'], ['C13.index'])
seeded('seeded-R4C14-rotation-vector-ball', ['C14'], ['C14.so3'])
seeded('seeded-R4C15-setup-keeps-tree', ['C01', 'C02'], ['C01.recheck', 'C02.reroot'])
for _k in (1, 2, 3, 4, 5):
    benign_patch('ben8-r%d' % _k, ALL)                          # RRT / PRM clean-ups (enumerate, sample_target(), successors walk, flattened build loop)
    benign_patch('ben9-r%d' % _k, ALL)                          # additive API (Path accessors, SO3 accessors, PlannerStats, derives, delegating constructors)
    benign_patch('ben10-r%d' % _k, ['C06', 'C07', 'C08', 'C09', 'C10', 'C11', 'C12', 'C13', 'C14'])   # primitive space clean-ups
benign_patch('ben1-r3', ALL)                                   # RRT-Connect: enum GrowingTree + match + continue (decision-split view)
benign_patch('ben5-r4', ALL)                                   # RRT-Connect: flag first, join_trees() helper
benign_patch('ben7-r3', ['C19', 'C20'])                        # generic call_with_state::<T>() in the Python goal adapter
benign_patch('ben7-r4', ['C19', 'C20'])                        # to_py_result() free function + macro arms
benign_patch('ben5-r2', ALL)                                   # RRT* find_neighbours as filter/map/collect + find_nearest() (lazy-iterator expansion)
benign_patch('ben5-r3', ALL)                                   # RRT-Connect nearest search as fold over a tuple accumulator
benign_patch('ben6-r1', ['C03', 'C06', 'C08', 'C09', 'C10', 'C11', 'C13'])   # compound weighted_norm(lazy iterator)


# ---------------------------------------------------------------- C04 (partial): stored-state origins and convexity of the regions
case('c04-rv-interpolate-not-affine', ['C04'], ['C04.convex'],
     (RV, "            out_state.values[i] = from.values[i] + (to.values[i] - from.values[i]) * t;",
      "            out_state.values[i] = from.values[i] + (to.values[i] + from.values[i]) * t;"))
case('c04-rv-interpolate-overshoot', ['C04'], ['C04.convex'],
     (RV, "            out_state.values[i] = from.values[i] + (to.values[i] - from.values[i]) * t;",
      "            out_state.values[i] = from.values[i] + (to.values[i] - from.values[i]) * (t * 1.5);"))
case('benign-c04-rv-interpolate-named', ['C04', 'C10', 'C09'], [],
     (RV, "            out_state.values[i] = from.values[i] + (to.values[i] - from.values[i]) * t;",
      "            let delta = to.values[i] - from.values[i];\n            out_state.values[i] = from.values[i] + delta * t;"))

# ---------------------------------------------------------------- round 5
seeded('seeded-R5C02-snap-start-to-milestone', ['C02'], ['C02.nonempty'])
seeded('seeded-R5C05-choose-parent-unsteered', ['C05', 'C17'], ['C05.steer', 'C17.choose'])
seeded('seeded-R5C06-greedy-connect-loop', ['C06', 'C16'], ['C06.loops', 'C16.one'])
seeded('seeded-R5C11-zero-quaternion-kept', ['C11'], ['C11.canon'])
seeded('seeded-R5C12-huge-angle', ['C12', 'C10'], ['C12.range'])
seeded('seeded-R5C16-nearest-early-exit', ['C16'], ['C16.nearest'])
seeded('seeded-R5C17-nearest-excluded-from-rewire', ['C17'], ['C17.rewire'])
seeded('seeded-R5C18-skip-coincident-start', ['C18', 'C03'], ['C18.guards'])
seeded('seeded-R5C19-clamp-start', ['C19'], ['C19.lossless'])
seeded('seeded-R5C20-retry-once', ['C20'], ['C20.validity'])
for _k in (1, 2, 3, 4, 5):
    benign_patch('ben11-r%d' % _k, ALL)                         # planner set-up: let-else gates, Node::root, loop-as-expression, out_of_time() closure, PRM context()
    benign_patch('ben12-r%d' % _k, ['C19', 'C20'])              # bindings: combinator chains, with_planner! macro, value_error helper, macro impls, method() helper
    benign_patch('ben13-r%d' % _k, ALL)                         # check_motion as Iterator::all / match / while counter; RRT* cost over states; index before push
benign_patch('rrtstar-skip-parent-local', ALL)                 # RRT* rewire loop skipping the chosen parent through a local

# ---------------------------------------------------------------- round 6 (benign)
for _k in (1, 2, 3, 4, 5):
    benign_patch('ben14-r%d' % _k, ALL)                         # RRT* / RRT-Connect: nearest_node(&[Node]) helper, map_or cost, let-else + != Reached, GrowingTree + matches!, index before push
    benign_patch('ben15-r%d' % _k, ['C03', 'C04', 'C06', 'C08', 'C09', 'C10', 'C11', 'C12', 'C13', 'C14'])   # spaces: validate helper + ?, zip / all, closure-parameterised weighted_norm, if-expressions, slice patterns
    benign_patch('ben16-r%d' % _k, ALL)                         # PRM: let-else + all, filter/map/collect connections, connectable_milestones(), successors walk, direct return from the BFS

# ---------------------------------------------------------------- C09.cut / C09.repr / C10.repr (round 6)
case('benign-c09-so3-exact-cut', ['C09', 'C10', 'C13'], [],
     (SO3, "        let clamped_dot = abs_dot.min(1.0);\n        2.0 * clamped_dot.acos()",
      "        if abs_dot >= 1.0 {\n            return 0.0;\n        }\n        2.0 * abs_dot.acos()"))
case('c09-so3-distance-no-abs', ['C09'], ['C09.repr'],
     (SO3, "                .abs();\n        let clamped_dot = abs_dot.min(1.0);", "                .max(-1.0);\n        let clamped_dot = abs_dot.min(1.0);"))
case('c10-so3-slerp-no-sign', ['C10'], ['C10.repr'],
     (SO3, "            let s1 = (t * theta).sin() / sin_theta * sign;", "            let s1 = (t * theta).sin() / sin_theta;"))

# ---------------------------------------------------------------- round 6 (seeded)
seeded('seeded-R6C01-unvalidated-goal-sample', ['C01', 'C02'], ['C01.prov'])
seeded('seeded-R6C03-multi-start-unchecked-first-edge', ['C03', 'C18'], ['C03.link'])
seeded('seeded-R6C04-so2-tie-wrapped', ['C04'], ['C04.convex'])
seeded('seeded-R6C07-hashset-neighbours', ['C07', 'C17'], ['C07.source'])
seeded('seeded-R6C08-lazy-start-validity', ['C01', 'C08'], ['C01.gate'])
seeded('seeded-R6C09-so3-distance-cut', ['C09'], ['C09.cut'])
seeded('seeded-R6C10-lerp-without-flip', ['C10'], ['C10.repr'])
seeded('seeded-R6C13-weight-clamped-resolution', ['C13', 'C03'], ['C13.match'])
seeded('seeded-R6C14-so2-modulo-bias', ['C14'], ['C14.draw'])
seeded('seeded-R6C15-cost-lowered-before-check', ['C15', 'C17'], ['C17.cost'])
case('c04-so2-tie-nonstrict', ['C04'], ['C04.convex'],
     (SO2, "        if diff_to_from > PI {", "        if diff_to_from >= PI {"))

# ---------------------------------------------------------------- round 7
seeded('seeded-R7C02-best-goal-kept-across-setup', ['C02', 'C08'], ['C02.goal'])
seeded('seeded-R7C05-clamp-after-steer', ['C05'], ['C05.radius'])
seeded('seeded-R7C06-deadline-polled-on-success-count', ['C06'], ['C06.loops'])
seeded('seeded-R7C11-half-open-canonical-test', ['C11'], ['C11.accept'])
seeded('seeded-R7C12-total-cmp-bounds', ['C12'], ['C12.stored'])
seeded('seeded-R7C16-add-despite-blocked-nearest', ['C16', 'C01', 'C17'], ['C01.admit'])
seeded('seeded-R7C17-skip-siblings-in-rewire', ['C17'], ['C17.rewire'])
seeded('seeded-R7C18-goal-indices-cached-across-setup', ['C18', 'C08'], ['C18.reuse'])
seeded('seeded-R7C19-compound-args-swapped', ['C19'], ['C19.args'])
seeded('seeded-R7C20-lookup-error-is-valid', ['C20'], ['C20.validity'])
for _k in (1, 2, 3, 4, 5):
    benign_patch('ben17-r%d' % _k, ALL)                         # RRT: min_by nearest, all() motion check, sample_target()/steer(), loop-as-expression + Option::zip gate, Deadline struct + successors walk
    benign_patch('ben18-r%d' % _k, ['C19', 'C20'])              # bindings: let-else adapters, f64_property helper, Result combinators, hoisted checker, is_ok_and probes
    benign_patch('ben19-r%d' % _k, ['C03', 'C04', 'C06', 'C08', 'C09', 'C10', 'C11', 'C12', 'C13', 'C14'])   # SO2/SO3/SE2/SE3: quat_dot/quat_norm, named values, wrap_angle/new-based constructors, slice let-else, bool::then sampler helper
CASES.append({'name': 'argmin-reversed-comparator', 'props': ['C16'], 'expect': ['C16.nearest'], 'patch': '/verif/selftest/benign/ben17-r1.diff',
              'edits': [('oxmpl/src/geometric/planners/rrt.rs', 'a.partial_cmp(b).unwrap_or(Ordering::Equal)', 'b.partial_cmp(a).unwrap_or(Ordering::Equal)')]})
CASES.append({'name': 'argmin-skips-root', 'props': ['C16'], 'expect': ['C16.nearest'], 'patch': '/verif/selftest/benign/ben17-r1.diff',
              'edits': [('oxmpl/src/geometric/planners/rrt.rs', '            .enumerate()\n            .map(|(index, node)|', '            .enumerate()\n            .skip(1)\n            .map(|(index, node)|')]})

# ---------------------------------------------------------------- round 8
seeded('seeded-R8C01-accumulated-parameter-loop', ['C01', 'C03'], ['C01.kernel'])
seeded('seeded-R8C03-step-count-from-max-distance', ['C03'], ['C03.res'])
seeded('seeded-R8C04-so3-lerp-no-flip-leaves-cone', ['C04', 'C10'], ['C10.repr'])
seeded('seeded-R8C07-bias-doubles-after-half-time', ['C07', 'C16'], ['C07.clock'])
seeded('seeded-R8C08-early-exit-before-parent-entry', ['C08', 'C02'], ['C02.goal'])
seeded('seeded-R8C09-rn-1d-signed-distance', ['C09'], ['C09.range'])
seeded('seeded-R8C10-threshold-on-signed-dot', ['C10'], ['C10.repr'])
seeded('seeded-R8C13-se2-drops-wide-yaw-bounds', ['C13'], ['C13.se'])
seeded('seeded-R8C14-rn-halves-around-zero', ['C14'], ['C14.draw'])
seeded('seeded-R8C15-double-subtracted-improvement', ['C15', 'C17'], ['C17.rewire'])
for _k in (1, 2, 3, 4, 5):
    benign_patch('ben20-r%d' % _k, ALL)                         # shared helpers in planners/mod.rs: is_motion_valid, nearest_node (fold + state_of closure), steer, take_or_create_rng, TreeNode + branch_states
    benign_patch('ben21-r%d' % _k, ALL)                         # performance edits: by-reference scans, cost_via(&S, ..), goal mask + reserved queue, borrowed q_near, fused sums / zips
    benign_patch('ben22-r%d' % _k, ALL)                         # additive API: derives, Path::length, roadmap accessors, iteration counter, debug_assert!s
CASES.append({'name': 'goal-mask-negated', 'props': ['C02', 'C18'], 'expect': ['C02.goal'], 'patch': '/verif/selftest/benign/ben21-r3.diff',
              'edits': [('oxmpl/src/geometric/planners/prm.rs', '.map(|node| goal.is_satisfied(&node.state))', '.map(|node| !goal.is_satisfied(&node.state))')]})

# ---------------------------------------------------------------- round 9
seeded('seeded-R9C02-trees-left-swapped-on-timeout', ['C02', 'C15', 'C16'], ['C16.balance'])
seeded('seeded-R9C05-start-links-cached', ['C05', 'C03'], ['C05.radius'])
seeded('seeded-R9C06-subsec-millis-deadline', ['C06'], ['C06.deadline'])
# seeded('seeded-R9C11-overshoot-fraction', ['C11'], ['C11.enforce'])     # retired: superseded by the repair 955ad5e (see seeded/R9C11/meta.json)
seeded('seeded-R9C12-infinite-bounds-unordered', ['C12'], ['C12.stored'])
seeded('seeded-R9C16-skip-coincident-sample', ['C16'], ['C16.extend'])
seeded('seeded-R9C17-neighbours-prefiltered-by-sample', ['C17', 'C15'], ['C15.range'])
seeded('seeded-R9C18-start-connections-capped', ['C18'], ['C18.query'])
seeded('seeded-R9C19-setter-drops-large-fraction', ['C19'], ['C19.forward'])
seeded('seeded-R9C20-distance-fallback-near-goal', ['C20'], ['C20.goal'])
for _n in ('ben23-r2', 'ben23-r3', 'ben23-r4', 'ben24-r1', 'ben24-r2', 'ben24-r3', 'ben24-r4', 'ben24-r5', 'ben25-r1', 'ben25-r3', 'ben25-r4',
           'ben25-r5', 'ben26-r1', 'ben26-r2', 'ben26-r3', 'ben26-r4', 'ben26-r5'):
    benign_patch(_n, ALL)                                       # deep restructurings that the machinery follows (the three it does not are in selftest/benign/unsupported, DESIGN 10.20)

# ---------------------------------------------------------------- round 10
seeded('seeded-RAC01-goal-root-redraw-unvalidated', ['C01', 'C15', 'C16'], ['C01.root'])
seeded('seeded-RAC03-start-links-reused-after-new-start', ['C03', 'C05'], ['C03.link'])
seeded('seeded-RAC04-narrow-cone-direct-sampling', ['C11', 'C14', 'C06'], ['C11.same'])
seeded('seeded-RAC07-neighbours-in-hashmap', ['C07', 'C17'], ['C07.source'])
seeded('seeded-RAC08-budget-duration-from-negative', ['C08', 'C06'], ['C08.panics'])
seeded('seeded-RAC09-zero-weight-break', ['C09', 'C13'], ['C13.index'])
seeded('seeded-RAC10-so2-rem-euclid-tie', ['C10', 'C04'], ['C04.convex'])
seeded('seeded-RAC13-skip-stationary-component', ['C13'], ['C13.match'])
seeded('seeded-RAC14-signed-dot-cone-test', ['C14', 'C11'], ['C14.so3'])
# seeded('seeded-RAC15-zero-step-motion-unchecked', ['C15', 'C01', 'C03'], ['C01.kernel'])     # retired: superseded by the repair a70cece (see seeded/RAC15/meta.json)
benign_patch('rac15-ported-no-short-branch', ['C01', 'C03', 'C06', 'C15'])   # the same edit on the repaired base is harmless
for _k in (1, 2, 3, 4, 5):
    benign_patch('ben27-r%d' % _k, ['C19', 'C20', 'C08'])       # oxmpl-js: f64_property helper, let-else in goal callbacks, macro-generated checker impls, map/map_err in sample(), merged match in setup
    benign_patch('ben28-r%d' % _k, ALL)                         # RRT/RRT*: sample_target fn, Nearest struct via fold, store_problem/reset_tree (&mut self helpers), choose_parent + filter/map/collect neighbours, rewired_cost + successors
    benign_patch('ben29-r%d' % _k, ALL)                         # compound/SE2/SE3: weighted_norm(closure), enumerate loops, getters via accessors, guard clause + hoisted constructors, generic downcast helpers

# ---------------------------------------------------------------- round 11
seeded('seeded-RBC02-get-or-insert-keeps-first-problem', ['C02', 'C08'], ['C02.reroot'])
seeded('seeded-RBC05-so2-interpolate-long-way-when-bounded', ['C05', 'C10'], ['C10.arc'])
seeded('seeded-RBC06-branch-cost-walk-rewire-cycle', ['C06', 'C17'], ['C06.loops'])
seeded('seeded-RBC11-normalise-after-the-bounds-test', ['C11'], ['C11.accept'])
seeded('seeded-RBC12-zero-magnitude-cutoff-min-positive', ['C12'], ['C12.unit'])
seeded('seeded-RBC16-fold-last-of-equally-near', ['C16', 'C05'], ['C16.nearest'])
seeded('seeded-RBC17-motion-verdict-reused-in-reverse', ['C17', 'C03'], ['C17.rewire'])
seeded('seeded-RBC18-goal-test-at-discovery-only', ['C18'], ['C18.bfs'])
seeded('seeded-RBC19-wrapper-draws-a-goal-sample', ['C19'], ['C19.callbacks'])
seeded('seeded-RBC20-baseexception-counts-as-satisfied', ['C20'], ['C20.goal'])
for _n in ('ben30-r1', 'ben30-r2', 'ben30-r3', 'ben30-r5', 'ben31-r1', 'ben31-r2', 'ben31-r3', 'ben31-r4',
           'ben32-r1', 'ben32-r2', 'ben32-r3', 'ben32-r4', 'ben32-r5'):
    benign_patch(_n, ALL)                                       # PRM / RRT-Connect / simple spaces, moderately invasive (the two not followed are in selftest/benign/unsupported, DESIGN 10.22)
# the two genuine defects repaired in round 11, re-introduced: the rules that found them must fire again
CASES.append({'name': 'c12-unit-overflow-reintroduced', 'props': ['C12'], 'expect': ['C12.unit'],
              'edits': [('oxmpl/src/base/states/so3_state.rs', '} else if norm.is_infinite() {', '} else if norm.is_infinite() && norm < 0.0 {')]})
CASES.append({'name': 'c12-sample-width-reintroduced', 'props': ['C12', 'C11'], 'expect': ['C12.sample'],
              'edits': [('oxmpl/src/base/spaces/real_vector_state_space.rs', ' || !(upper - lower).is_finite()', '')]})
CASES.append({'name': 'benign-c12-cutoff-1e-12', 'props': ['C12', 'C11'], 'expect': [],
              'edits': [('oxmpl/src/base/states/so3_state.rs', 'if norm < 1e-9 {', 'if norm < 1e-12 {')]})

# ---------------------------------------------------------------- C09 / C10 algebraic clauses (normal forms, round 12)
case('c09-so2-asym-min', ['C09'], ['C09.sym'],
     (SO2, "        diff = (diff + PI).rem_euclid(2.0 * PI) - PI;\n        diff.abs()",
           "        diff = diff.rem_euclid(2.0 * PI);\n        diff.min(PI)"))
case('c09-so2-zero-offset', ['C09'], ['C09.zero'],
     (SO2, "        diff = (diff + PI).rem_euclid(2.0 * PI) - PI;\n        diff.abs()",
           "        diff = (diff + PI).rem_euclid(2.0 * PI) - PI;\n        diff.abs().max(1e-3)"))
case('c09-so2-period-half', ['C09'], ['C09.period'],
     (SO2, "        diff = (diff + PI).rem_euclid(2.0 * PI) - PI;\n        diff.abs()",
           "        diff = (diff + 2.0 * PI).rem_euclid(4.0 * PI) - 2.0 * PI;\n        diff.abs().min(PI)"))
case('c09-rv-weighted-first', ['C09'], ['C09.sym'],
     (RV, "            .map(|(v1, v2)| (v1 - v2).powi(2))", "            .map(|(v1, v2)| (v1 - v2).powi(2) * (1.0 + v1.abs().min(1e-3)))"))
case('c10-so2-reversed-diff', ['C10'], ['C10.ends'],
     (SO2, "let mut diff_to_from = to.clone().normalise().value - from.clone().normalise().value;",
           "let mut diff_to_from = from.clone().normalise().value - to.clone().normalise().value;"))
case('c10-rv-from-to-swapped', ['C10'], ['C10.ends'],
     (RV, "out_state.values[i] = from.values[i] + (to.values[i] - from.values[i]) * t;",
          "out_state.values[i] = to.values[i] + (from.values[i] - to.values[i]) * t;"))
case('c10-rv-ease', ['C10'], ['C10.affine'],
     (RV, "out_state.values[i] = from.values[i] + (to.values[i] - from.values[i]) * t;",
          "out_state.values[i] = from.values[i] + (to.values[i] - from.values[i]) * t * t * (3.0 - 2.0 * t);"))
case('c10-so3-slerp-weights-swapped', ['C10'], ['C10.ends'],
     (SO3, "            let s0 = ((1.0 - t) * theta).sin() / sin_theta;\n            let s1 = (t * theta).sin() / sin_theta * sign;",
           "            let s0 = (t * theta).sin() / sin_theta;\n            let s1 = ((1.0 - t) * theta).sin() / sin_theta * sign;"))
case('c10-so3-lerp-component-mixup', ['C10'], ['C10.ends'],
     (SO3, "            out_state.y = from.y + t * (to.y * sign - from.y);", "            out_state.y = from.y + t * (to.z * sign - from.y);"))
case('c10-so2-swap-asym-offset', ['C10'], ['C10.swap'],
     (SO2, "        out_state.value = from.value + diff_to_from * t;", "        out_state.value = from.value + diff_to_from * t + 1e-3 * t * (1.0 - t) * from.value;"))
case('benign-c09-so2-rem-form', ['C09', 'C10'], [],
     (SO2, "        diff = (diff + PI).rem_euclid(2.0 * PI) - PI;\n        diff.abs()",
           "        diff = diff.rem_euclid(2.0 * PI);\n        if diff > PI {\n            2.0 * PI - diff\n        } else {\n            diff\n        }"))
case('benign-c09-so2-pi-minus', ['C09', 'C10'], [],
     (SO2, "        diff = (diff + PI).rem_euclid(2.0 * PI) - PI;\n        diff.abs()",
           "        diff = diff.rem_euclid(2.0 * PI);\n        PI - (diff - PI).abs()"))
case('benign-c09-rv-loop', ['C09', 'C10'], [],
     (RV, "        state1\n            .values\n            .iter()\n            .zip(state2.values.iter())\n            .map(|(v1, v2)| (v1 - v2).powi(2))\n            .sum::<f64>()\n            .sqrt()",
          "        let mut acc = 0.0;\n        for i in 0..state1.values.len() {\n            let d = state1.values[i] - state2.values[i];\n            acc += d * d;\n        }\n        acc.sqrt()"))
case('benign-c10-rv-lerp-form', ['C09', 'C10', 'C04'], [],
     (RV, "out_state.values[i] = from.values[i] + (to.values[i] - from.values[i]) * t;",
          "let delta = to.values[i] - from.values[i];\n            out_state.values[i] = from.values[i] + t * delta;"))
case('benign-c10-so3-dot-helper', ['C09', 'C10'], [],
     (SO3, "        let mut dot = from.x * to.x + from.y * to.y + from.z * to.z + from.w * to.w;\n\n        let sign = if dot < 0.0 { -1.0 } else { 1.0 };\n        dot *= sign;",
           "        let raw = from.x * to.x + from.y * to.y + from.z * to.z + from.w * to.w;\n        let (sign, dot) = if raw < 0.0 { (-1.0, -raw) } else { (1.0, raw) };"))
case('benign-c04-rv-convex-form', ['C04', 'C10', 'C09'], [],
     (RV, "out_state.values[i] = from.values[i] + (to.values[i] - from.values[i]) * t;",
          "out_state.values[i] = (1.0 - t) * from.values[i] + t * to.values[i];"))
case('c10-so3-lerp-no-renorm', ['C10'], ['C10.unit'],
     (SO3, "            out_state.x /= norm;\n            out_state.y /= norm;\n            out_state.z /= norm;\n            out_state.w /= norm;",
           "            let _ = norm;"))
case('c10-so3-slerp-wrong-denominator', ['C10'], ['C10.unit'],
     (SO3, "            let s0 = ((1.0 - t) * theta).sin() / sin_theta;", "            let s0 = ((1.0 - t) * theta).sin() / theta;"))
case('c12-so2-normalise-shifted', ['C12', 'C10'], ['C12.congruent'],
     ('oxmpl/src/base/states/so2_state.rs', "            value: (self.value + PI).rem_euclid(2.0 * PI) - PI,", "            value: self.value.rem_euclid(2.0 * PI) - PI,"))
case('c10-so3-nlerp-everywhere', ['C10'], ['C10.speed'],
     (SO3, "            let s0 = ((1.0 - t) * theta).sin() / sin_theta;\n            let s1 = (t * theta).sin() / sin_theta * sign;",
           "            let _ = (theta, sin_theta);\n            let n0 = 1.0 - t;\n            let n1 = t * sign;\n            let nn = (n0 * n0 + n1 * n1 + 2.0 * n0 * n1 * sign * dot).sqrt();\n            let s0 = n0 / nn;\n            let s1 = n1 / nn;"))

# ---------------------------------------------------------------- round 12
for _k in (1, 2, 3, 4, 5):
    benign_patch('ben34-r%d' % _k, ['C19', 'C20', 'C08'])       # bindings: generic call_is_valid helpers, states_to_py_list, Option chains / let-else in from_js_value, JsGoal::method + map_or_else, checker Arc hoisted above the match
    benign_patch('ben35-r%d' % _k, ALL)                         # spaces: quat_dot / with_bounds, norm() accessors, assert_dimension + zip + collect::<Result<Vec>>, weighted_norm fold, generic downcast helpers + static inner calls + guard-arm constructors
CASES.append({'name': 'ben35r5-length-test-weakened', 'props': ['C12'], 'expect': ['C12.count'], 'patch': '/verif/selftest/benign/ben35-r5.diff',
              'edits': [('oxmpl/src/base/spaces/se3_state_space.rs', 'if bounds.len() != 3 {', 'if bounds.len() > 3 {')]})
CASES.append({'name': 'ben34r4-distance-fallback-zero', 'props': ['C20'], 'expect': ['C20.goal'], 'patch': '/verif/selftest/benign/ben34-r4.diff',
              'edits': [('oxmpl-js/src/base/goal.rs', '                UNKNOWN_GOAL_DISTANCE\n            },', '                0.0\n            },')]})
CASES.append({'name': 'ben35r3-sampler-folds-the-draw', 'props': ['C14', 'C11'], 'expect': ['C14.draw'], 'patch': '/verif/selftest/benign/ben35-r3.diff',
              'edits': [('oxmpl/src/base/spaces/real_vector_state_space.rs', '        Ok(rng.random_range(lower..upper))', '        Ok(rng.random_range(lower..upper).max(0.5 * (lower + upper)))')]})
# the C11 defect repaired in round 13 (SO3 enforce_bounds left states the bounds check rejects), re-introduced in two forms
CASES.append({'name': 'c11-so3-projection-unchecked-reintroduced', 'props': ['C11'], 'expect': ['C11.accept'],
              'edits': [('oxmpl/src/base/spaces/so3_state_space.rs', '            if self.satisfies_bounds(state) {\n                return;\n            }\n            t *=',
                         '            if t <= 1.0 {\n                return;\n            }\n            t *=')]})
CASES.append({'name': 'c11-so3-projection-grows', 'props': ['C11'], 'expect': ['C11.enforce'],
              'edits': [('oxmpl/src/base/spaces/so3_state_space.rs', ' * (1.0 - 1e-12);', ' * (1.0 + 1e-3);')]})
CASES.append({'name': 'benign-c11-so3-projection-tolerance', 'props': ['C11', 'C06', 'C08', 'C10'], 'expect': [],
              'edits': [('oxmpl/src/base/spaces/so3_state_space.rs', ' * (1.0 - 1e-12);', ' * (1.0 - 1e-10);'),
                        ('oxmpl/src/base/spaces/so3_state_space.rs', '        for _ in 0..8 {\n            self.interpolate(center_rotation', '        for _ in 0..4 {\n            self.interpolate(center_rotation')]})

# ---------------------------------------------------------------- rounds 12 and 13 of seeded changes
seeded('seeded-RCC01-zero-cost-return-above-the-start-gate', ['C01'], ['C01.gate'])
seeded('seeded-RCC03-bounded-so2-long-arc', ['C03', 'C10'], ['C10.arc'])
seeded('seeded-RCC04-sampler-uses-cached-ranges', ['C04', 'C11', 'C14'], ['C11.same'])
seeded('seeded-RCC07-process-global-print-once-flag', ['C07', 'C02'], ['C07.source'])
seeded('seeded-RCC08-best-goal-index-across-setup', ['C08', 'C02'], ['C08.init'])
seeded('seeded-RCC09-unwrapped-fast-path-narrow-bounds', ['C09'], ['C09.period'])
seeded('seeded-RCC10-interpolate-skips-stationary-component', ['C10', 'C13'], ['C13.match'])
seeded('seeded-RCC13-memoised-resolution', ['C13', 'C03'], ['C13.match'])
seeded('seeded-RCC14-span-of-the-requested-interval', ['C14', 'C11'], ['C14.draw'])
seeded('seeded-RCC15-step-count-cached-at-setup', ['C15', 'C03'], ['C03.res'])
seeded('seeded-RDC02-zero-distance-sample-not-pushed', ['C02', 'C16'], ['C16.extend'])
seeded('seeded-RDC05-reached-within-tolerance', ['C05', 'C16'], ['C16.balance'])
seeded('seeded-RDC06-resolution-cached-by-constructor', ['C06', 'C03'], ['C03.lvs'])
seeded('seeded-RDC11-clamp-keeps-nan-radius', ['C11', 'C12'], ['C12.nan'])
seeded('seeded-RDC12-at-least-three-bounds', ['C12'], ['C12.count'])
seeded('seeded-RDC16-steered-state-clamped', ['C16', 'C05'], ['C05.radius'])
seeded('seeded-RDC17-goal-test-before-rewire', ['C17'], ['C17.rewire'])
seeded('seeded-RDC18-component-ids-under-report', ['C18', 'C02'], ['C02.goal'])
seeded('seeded-RDC19-core-planner-rebuilt-in-setup', ['C19'], ['C19.object'])
seeded('seeded-RDC20-accepted-memo-keeps-failed-state', ['C20'], ['C20.validity'])
benign_patch('ben33-r1', ALL)                                   # RRT*: choose_parent / rewire helpers + ParentChoice struct, Arc::clone of the problem
benign_patch('ben33-r2', ALL)
benign_patch('ben33-r3', ALL)
benign_patch('ben33-r5', ALL)
benign_patch('ben33-r4', ALL)                                   # RRT*: let-else gates, enumerate().skip(1) nearest, fold choose-parent, filter in the rewire loop header
CASES.append({'name': 'c20-print-exits-reintroduced', 'props': ['C20'], 'expect': ['C20.exit'],
              'edits': [('oxmpl-py/src/base/goal.rs', 'e.display(py);', 'e.print(py);')]})

# ---------------------------------------------------------------- round 14
seeded('seeded-REC01-one-root-per-start-any-valid', ['C01', 'C02'], ['C01.gate'])
seeded('seeded-REC03-deadline-break-in-motion-check', ['C03', 'C01', 'C07'], ['C01.kernel'])
seeded('seeded-REC04-goal-tree-never-cleared', ['C04', 'C02', 'C01'], ['C02.reroot'])
seeded('seeded-REC07-hashset-goal-fast-path', ['C07', 'C18'], ['C07.source'])
seeded('seeded-REC08-generator-taken-above-the-gate', ['C08', 'C07'], ['C07.restore'])
seeded('seeded-REC09-rescale-by-signed-maximum', ['C09'], ['C09.range'])
seeded('seeded-REC10-interpolate-ends-with-enforce-bounds', ['C10'], ['C10.ends'])
seeded('seeded-REC13-se3-bounds-check-translation-only', ['C13'], ['C13.match'])
seeded('seeded-REC14-prepared-uniform-distributions', ['C14', 'C11'], ['C14.draw'])
seeded('seeded-REC15-deadline-break-in-connect-motion-check', ['C15', 'C01', 'C07'], ['C01.kernel'])
for _n in ('ben36-r1', 'ben36-r2', 'ben36-r3', 'ben36-r4', 'ben37-r1', 'ben37-r4', 'ben37-r5'):
    benign_patch(_n, ALL)                                       # spaces: wrap_angle / angular_gap, dot / norm / zip_with, project_into_cone -> Option, assert_dimension + zip; RRT-Connect nearest_node fold + steer; RRT* filter_map neighbours, choose_parent / rewire (three not followed: selftest/benign/unsupported)
for _k in (1, 2, 3, 4, 5):
    benign_patch('ben38-r%d' % _k, ['C19', 'C20', 'C08'])       # bindings: generic query helper, JS method() helper + let-else, match on (planner, pd), with_planner! macro, generic ask<T>
CASES.append({'name': 'ben38r5-goal-fallback-true', 'props': ['C20'], 'expect': ['C20.goal'], 'patch': '/verif/selftest/benign/ben38-r5.diff',
              'edits': [('oxmpl-py/src/base/goal.rs', 'self.ask("is_satisfied", state, false)', 'self.ask("is_satisfied", state, true)')]})
CASES.append({'name': 'ben36r3-projection-returned-unchecked', 'props': ['C11'], 'expect': ['C11.accept'], 'patch': '/verif/selftest/benign/ben36-r3.diff',
              'edits': [('oxmpl/src/base/spaces/so3_state_space.rs', '            if self.satisfies_bounds(&candidate) {\n                return Some(candidate);', '            if t <= 1.0 {\n                return Some(candidate);')]})
case('benign-c17-rewire-only-with-neighbours', ['C17', 'C15', 'C06', 'C03'], [],
     (RRTS, "            // 8. Rewire tree\n            for &neighbour_idx in &neighbours {", "            // 8. Rewire tree\n            if !neighbours.is_empty() {\n            for &neighbour_idx in &neighbours {"),
     (RRTS, "                    mutable_neighbour_node.cost = cost_via_new_node;\n                }\n            }\n", "                    mutable_neighbour_node.cost = cost_via_new_node;\n                }\n            }\n            }\n"))

# ---------------------------------------------------------------- round 15
seeded('seeded-RFC02-pruned-orphans-become-roots', ['C02', 'C15'], ['C15.noremove'])
seeded('seeded-RFC05-stale-back-link-index', ['C05', 'C18'], ['C18.sym'])
seeded('seeded-RFC06-trees-written-back-swapped-on-timeout', ['C06', 'C15', 'C02'], ['C15.noremove'])
seeded('seeded-RFC11-narrow-cone-product-sign-slip', ['C11', 'C14'], ['C11.same'])
seeded('seeded-RFC12-rescale-once-by-a-constant', ['C12'], ['C12.unit'])
seeded('seeded-RFC16-bernoulli-coin-built-in-setup', ['C16', 'C08'], ['C16.bias'])
seeded('seeded-RFC17-costs-vector-not-cleared', ['C17', 'C15'], ['C17.cost'])
seeded('seeded-RFC18-visited-flags-kept-after-timeout', ['C18', 'C07', 'C06'], ['C07.source'])
seeded('seeded-RFC19-verdict-cache-keyed-on-address', ['C19', 'C20'], ['C20.validity'])
seeded('seeded-RFC20-last-goal-sample-counts-as-satisfied', ['C20'], ['C20.goal'])
CASES.append({'name': 'rfc18-buffer-reset-at-query-start', 'props': ['C18'], 'expect': [], 'patch': '/verif/seeded/RFC18/patch.diff',
              'edits': [('oxmpl/src/geometric/planners/prm.rs', '        self.visited.resize(self.roadmap.len(), false);', '        self.visited.clear();\n        self.visited.resize(self.roadmap.len(), false);')]})

# ---------------------------------------------------------------- benign rounds 39-42 (on the base 1d82933)
for _k in (1, 2, 3, 4, 5):
    benign_patch('ben39-r%d' % _k, ALL)                         # PRM: connectable_milestones iterator, all() motion check + motion_steps, breadth_first_search -> SearchTree, successors path + Node accessors, require_setup / add_milestone
    benign_patch('ben41-r%d' % _k, ALL)                         # SE2/SE3/Any: component_as, split bounds first, concrete_ref / DynRng, wrap_to_pi + normalise helpers, direct inner calls + get_rotation_weight
    benign_patch('ben42-r%d' % _k, ['C19', 'C20', 'C08'])       # oxmpl-js: method() helper + macro-generated checker impls, number_property, slice_to_js_array / index_or, match on (planner, pd) + from_planner_result, has_property / boxed_from_js
CASES.append({'name': 'ben41r1-se2-components-swapped', 'props': ['C13'], 'expect': ['C13.se'], 'patch': '/verif/selftest/benign/ben41-r1.diff',
              'edits': [('oxmpl/src/base/states/se2_state.rs', '            Box::new(RealVectorState::new(vec![x, y])),\n            Box::new(SO2State::new(yaw)),',
                         '            Box::new(SO2State::new(yaw)),\n            Box::new(RealVectorState::new(vec![x, y])),')]})
CASES.append({'name': 'ben39r5-back-edges-skip-first', 'props': ['C18'], 'expect': ['C18.sym'], 'patch': '/verif/selftest/benign/ben39-r5.diff',
              'edits': [('oxmpl/src/geometric/planners/prm.rs', '        for &i in &neighbours {\n            roadmap[i].edges.push(new_node_idx);', '        for &i in neighbours.iter().skip(1) {\n            roadmap[i].edges.push(new_node_idx);')]})
for _n in ('ben40-r1', 'ben40-r2', 'ben40-r3', 'ben40-r5'):
    benign_patch(_n, ALL)                                       # RRT + shared code: planners/motion.rs is_motion_valid, Nearest fold + steer, let-else / all() / successors, loop-as-value + sample_target + tree_size() (r4 not followed: unsupported)

# ---------------------------------------------------------------- round 16
seeded('seeded-RGC01-roots-stored-after-enforce-bounds', ['C01', 'C02'], ['C01.root'])
seeded('seeded-RGC03-lerp-closure-fed-the-raw-end-point', ['C03', 'C10'], ['C10.repr'])
seeded('seeded-RGC04-step-floored-branch-not', ['C04', 'C05'], ['C05.steer'])
seeded('seeded-RGC07-trees-take-turns-from-a-local-flag', ['C07', 'C16'], ['C16.balance'])
seeded('seeded-RGC08-neighbour-cap-off-by-one', ['C08', 'C17'], ['C17.choose'])
seeded('seeded-RGC09-hemisphere-by-own-w-sign', ['C09'], ['C09.range'])
seeded('seeded-RGC10-normalise-tolerance-plus-lerp', ['C10', 'C12'], ['C12.unit'])
seeded('seeded-RGC13-se2-fast-path-half-turn', ['C13'], ['C13.match'])
seeded('seeded-RGC14-attempt-budget-with-boundary-fallback', ['C14', 'C11'], ['C14.so3'])
seeded('seeded-RGC15-raw-difference-single-correction', ['C15', 'C10'], ['C10.arc'])

# benign rounds 43-46 (RRT-Connect internals, RRT* internals, primitive spaces, Python bindings)
for _k in (1, 2, 3, 4):
    benign_patch('ben43-r%d' % _k, ALL)                         # fold-based nearest helper, check_motion(space, &dyn vc) + all(), let-else main loop + GrowingTree enum, successors-based branch_to_root
for _k in (1, 2, 3, 4, 5):
    benign_patch('ben44-r%d' % _k, ALL)                         # RRT*: let-else/all/map_or helpers, nearest_node/steer, ParentChoice struct, rewire(&mut self), successors + finish helper + accessors
for _k in (1, 3, 4):
    benign_patch('ben45-r%d' % _k, ['C05', 'C06', 'C08', 'C09', 'C10', 'C11', 'C12', 'C13', 'C14', 'C15', 'C07'])   # RealVector ctor/extent/sampling helpers, SO3 quaternion helpers, MotionResolution value type
for _k in (1, 2, 3, 4, 5):
    benign_patch('ben46-r%d' % _k, ['C19', 'C20', 'C08'])       # oxmpl-py: generic solve helper, tuple-match setup, shared builder, generic states iterator, variant dispatch macro
CASES.append({'name': 'ben45r4-resolution-accepts-zero', 'props': ['C06'], 'expect': ['C06.divisor'], 'patch': '/verif/selftest/benign/ben45-r4.diff',
              'edits': [('oxmpl/src/base/spaces/mod.rs', '            f if f > 0.0 && f <= 1.0 => f,', '            f if f >= 0.0 && f <= 1.0 => f,')]})
CASES.append({'name': 'ben45r4-resolution-default-zero', 'props': ['C06'], 'expect': ['C06.divisor'], 'patch': '/verif/selftest/benign/ben45-r4.diff',
              'edits': [('oxmpl/src/base/spaces/mod.rs', '    const DEFAULT_FRACTION: f64 = 0.05;', '    const DEFAULT_FRACTION: f64 = 0.0;')]})
CASES.append({'name': 'ben43r4-branch-drops-its-leaf', 'props': ['C02'], 'expect': ['C02.nonempty'], 'patch': '/verif/selftest/benign/ben43-r4.diff',
              'edits': [(RRTC, '            .map(|index| tree[index].state.clone())\n            .collect()', '            .skip(1)\n            .map(|index| tree[index].state.clone())\n            .collect()')]})
CASES.append({'name': 'ben43r4-goal-half-from-start-tree', 'props': ['C02'], 'expect': ['C02.goal'], 'patch': '/verif/selftest/benign/ben43-r4.diff',
              'edits': [(RRTC, 'let goal_path = Self::branch_to_root(&self.goal_tree, goal_idx);', 'let goal_path = Self::branch_to_root(&self.start_tree, goal_idx);')]})
benign_patch('ben45-r5', ['C05', 'C06', 'C08', 'C09', 'C10', 'C11', 'C12', 'C13', 'C14', 'C15', 'C07'])   # RealVector: assert_dimension helper, zip-based interpolate / enforce_bounds, `!(0..n).any(violates_bound)` with a named closure
CASES.append({'name': 'ben45r5-named-predicate-bounds-swapped', 'props': ['C11'], 'expect': ['C11.same'], 'patch': '/verif/selftest/benign/ben45-r5.diff',
              'edits': [('oxmpl/src/base/spaces/real_vector_state_space.rs', '            value - BOUNDS_TOLERANCE > upper || value + BOUNDS_TOLERANCE < lower',
                         '            value - BOUNDS_TOLERANCE > lower || value + BOUNDS_TOLERANCE < upper')]})
CASES.append({'name': 'ben45r5-named-predicate-all-instead-of-any', 'props': ['C11'], 'expect': ['C11.same'], 'patch': '/verif/selftest/benign/ben45-r5.diff',
              'edits': [('oxmpl/src/base/spaces/real_vector_state_space.rs', '        !(0..self.dimension).any(violates_bound)', '        !(0..self.dimension).all(violates_bound)')]})
CASES.append({'name': 'ben45r2-range-test-ends-swapped', 'props': ['C11'], 'expect': ['C11.same'], 'patch': '/verif/selftest/benign/ben45-r2.diff',
              'edits': [('oxmpl/src/base/spaces/so2_state_space.rs', '        (lower..=upper).contains(&value)', '        (upper..=lower).contains(&value)')]})
benign_patch('ben45-r2', ['C05', 'C06', 'C08', 'C09', 'C10', 'C11', 'C12', 'C13', 'C14', 'C15', 'C07'])   # SO2: wrap_to_pi / nearest_bound / is_proper_interval helpers, range form of the bounds test over a value chosen by an `if` expression
CASES.append({'name': 'ben45r2-bounds-test-always-rewraps', 'props': ['C11'], 'expect': ['C11.accept'], 'patch': '/verif/selftest/benign/ben45-r2.diff',
              'edits': [('oxmpl/src/base/spaces/so2_state_space.rs', '        let value = if (-PI..=PI).contains(&state.value) {\n            state.value\n        } else {\n            wrap_to_pi(state.value)\n        };',
                         '        let value = wrap_to_pi(state.value);')]})

# round 17 of seeded changes, the repair of the SO(3) cone centre (9308c57) and the rules that came with them
seeded('seeded-RHC02-joined-path-cut-one-past-first-goal-state', ['C02'], ['C02.goal'])
seeded('seeded-RHC04-so2-raw-difference-of-unnormalised-angles', ['C04', 'C10'], ['C10.arc'])
seeded('seeded-RHC05-prm-entry-point-indexes-unfiltered-starts', ['C05', 'C01', 'C03'], ['C05.radius', 'C01.prov'])
seeded('seeded-RHC06-prm-attaches-unchecked-goal-sample', ['C06', 'C01', 'C02'], ['C01.prov', 'C02.goal'])
seeded('seeded-RHC09-so3-distance-clamp-before-abs', ['C09'], ['C09.range'])
seeded('seeded-RHC10-so3-acos-hoisted-above-the-branch', ['C10'], ['C10.domain'])
seeded('seeded-RHC12-so3-radius-sign-test-with-tolerance', ['C12'], ['C12.nan'])
seeded('seeded-RHC14-so3-sampler-retries-rotated-images', ['C14'], ['C14.so3'])
case('c12-so3-centre-stored-as-given', ['C12'], ['C12.centre'],
     ('oxmpl/src/base/spaces/so3_state_space.rs', "                let center_rotation = center_rotation\n                    .normalise()\n                    .map_err(|_| StateSpaceError::InvalidCenterRotation)?;\n", ""))
case('c12-so3-centre-zero-fallback', ['C12'], ['C12.centre'],
     ('oxmpl/src/base/spaces/so3_state_space.rs', "                    .normalise()\n                    .map_err(|_| StateSpaceError::InvalidCenterRotation)?;", "                    .normalise()\n                    .unwrap_or_default();"))
case('c10-so3-distance-clamp-removed', ['C10'], ['C10.domain'],
     ('oxmpl/src/base/spaces/so3_state_space.rs', "        let clamped_dot = abs_dot.min(1.0);", "        let clamped_dot = abs_dot;"))
case('c10-so3-slerp-branch-test-widened', ['C10'], ['C10.domain'],
     ('oxmpl/src/base/spaces/so3_state_space.rs', "        if dot > DOT_THRESHOLD {", "        if dot > DOT_THRESHOLD * 2.0 {"))

# round 18 of seeded changes (base 9308c57)
seeded('seeded-RIC03-so2-distance-folded-once', ['C03', 'C09'], ['C09.range'])
seeded('seeded-RIC07-rrt-goal-generator-seed-overflow', ['C07'], ['C07.seed'])
seeded('seeded-RIC11-so2-wrap-by-floor-product', ['C11', 'C12', 'C10'], ['C11.canon', 'C12.range'])
seeded('seeded-RIC13-compound-sampler-drops-failed-component', ['C13', 'C14'], ['C13.match', 'C14.compose'])
seeded('seeded-RIC15-rrt-every-start-becomes-a-root', ['C15', 'C01', 'C02'], ['C01.gate', 'C02.reroot'])
seeded('seeded-RIC16-rrtconnect-step-floored-at-resolution', ['C16', 'C05'], ['C05.steer'])
seeded('seeded-RIC17-rrtstar-rewire-skips-former-leaders', ['C17'], ['C17.rewire'])
seeded('seeded-RIC18-prm-links-at-exactly-the-radius', ['C18'], ['C18.guards'])

# benign round 47 (SO3StateSpace and the SO(2)/SO(3) state normalisers: the area of the rules of rounds 17-18)
for _k in (1, 2, 3, 4, 5):
    benign_patch('ben47-r%d' % _k, ['C04', 'C05', 'C06', 'C07', 'C08', 'C09', 'C10', 'C11', 'C12', 'C13', 'C14', 'C15'])   # quaternion_dot / angle_from_dot / renormalise helpers, validated_cone + draw_unit_quaternion, accessors + project_into_cone, normaliser helpers, ShortArc struct
CASES.append({'name': 'ben47r1-angle-helper-loses-its-clamp', 'props': ['C10', 'C09'], 'expect': ['C10.domain'], 'patch': '/verif/selftest/benign/ben47-r1.diff',
              'edits': [('oxmpl/src/base/spaces/so3_state_space.rs', '    let clamped_dot = abs_dot.min(1.0);\n    2.0 * clamped_dot.acos()', '    let clamped_dot = abs_dot;\n    2.0 * clamped_dot.acos()')]})
CASES.append({'name': 'ben47r2-validated-cone-keeps-the-given-centre', 'props': ['C12'], 'expect': ['C12.centre'], 'patch': '/verif/selftest/benign/ben47-r2.diff',
              'edits': [('oxmpl/src/base/spaces/so3_state_space.rs', '        Ok((unit_center, max_angle.min(PI)))', '        let _ = unit_center;\n        Ok((center_rotation, max_angle.min(PI)))')]})
benign_patch('ric18-helper-strict-skip', ALL)                 # the refactoring half of seed RIC18 with the comparison kept strict: one `connectable_milestones` helper, skip on `distance >= radius`

# benign round 48 (PRM and the RRT-Connect join: the area of the C18 / C02 rules of rounds 17-18); r2 and r4 are in unsupported/
for _k in (1, 3, 5):
    benign_patch('ben48-r%d' % _k, ALL)                         # connectable_milestones as a filter/map/collect chain shared by construction and query; require_setup + motion_step_count + all(); enumerate loops with named-bool skip guards, Node accessors, insert_milestone
CASES.append({'name': 'ben48r5-named-radius-test-not-strict', 'props': ['C18'], 'expect': ['C18.guards'], 'patch': '/verif/selftest/benign/ben48-r5.diff',
              'edits': [('oxmpl/src/geometric/planners/prm.rs', '                    pd.space.distance(&q_rand, &milestone.state) < self.connection_radius;', '                    pd.space.distance(&q_rand, &milestone.state) <= self.connection_radius;')]})
CASES.append({'name': 'ben48r1-shared-helper-not-strict', 'props': ['C18'], 'expect': ['C18.guards'], 'patch': '/verif/selftest/benign/ben48-r1.diff',
              'edits': [('oxmpl/src/geometric/planners/prm.rs', '< self.connection_radius', '<= self.connection_radius')]})

# round 19 of seeded changes (base 9308c57; six, the agents asked to finish within ten minutes)
seeded('seeded-RJC01-prm-start-validity-cached-across-problems', ['C01'], ['C01.gate'])
seeded('seeded-RJC04-rn-interpolate-unrolled-lane-slip', ['C10', 'C06'], ['C10.component'])    # first reported by C06.loops only (an incidental site)
seeded('seeded-RJC08-prm-context-helper-unwraps-the-checker', ['C08'], ['C08.panics'])
seeded('seeded-RJC09-rn-distance-unrolled-lane-slip', ['C09'], ['C09.range'])
seeded('seeded-RJC12-so3-centre-fast-path-skips-normalise', ['C12'], ['C12.centre'])
seeded('seeded-RJC14-so3-direct-sampler-axis-from-cube', ['C14', 'C11'], ['C14.so3'])
case('c10-rn-interpolate-reads-the-next-component', ['C10'], ['C10.component'],
     ('oxmpl/src/base/spaces/real_vector_state_space.rs', "            out_state.values[i] = from.values[i] + (to.values[i] - from.values[i]) * t;",
      "            out_state.values[i] = from.values[i] + (to.values[(i + 1) % to.values.len()] - from.values[i]) * t;"))
