#!/usr/bin/env python3
"""Tests the checker both ways (not a registered check).

  python3 selftest/run.py [name-substring ...]

For every case in selftest/cases.py: copy /repo to a scratch directory outside /repo and /verif, apply the
edit, make sure it still compiles (cargo check), run the named checks against the scratch copy (OXA_REPO)
and compare the rules that fire with the expectation:
  expect = ['C03.link', ...]  -> each listed rule must report a NEW violation (mutant must be caught)
  expect = []                 -> benign refactor: no listed property may report anything
The scratch copy and its evidence directory are removed afterwards."""
import json, os, re, shutil, subprocess, sys, tempfile, time

HERE = os.path.dirname(os.path.abspath(__file__))
VERIF = os.path.dirname(HERE)
sys.path.insert(0, HERE)
from cases import CASES  # noqa


def sh(cmd, **kw):
    return subprocess.run(cmd, stdout=subprocess.PIPE, stderr=subprocess.STDOUT, text=True, **kw)


def main():
    sel = sys.argv[1:]
    shard = None
    if sel and sel[0].startswith('--shard='):      # --shard=i/n : every n-th case starting at i, own cache
        i, n = sel[0][8:].split('/')
        shard = (int(i), int(n))
        sel = sel[1:]
        os.environ['OXA_CACHE'] = os.path.join(VERIF, '.cache', 'shard%d' % shard[0])
    cases = [c for c in CASES if not sel or any(s in c['name'] for s in sel)]
    only = [x for x in os.environ.get('OXA_ONLY_PROPS', '').split(',') if x]
    if only:
        # a partial re-run after a change to a few rule modules: the listed checks only, on the cases that name them
        # (a must-catch case is kept only if every rule it expects belongs to a listed check)
        kept = []
        for c in cases:
            props = [q for q in c['props'] if q in only]
            if not props or any(e.split('.')[0] not in only for e in c['expect']):
                continue
            kept.append(dict(c, props=props))
        cases = kept
    if shard:
        cases = cases[shard[0]::shard[1]]
    scratch = tempfile.mkdtemp(prefix='oxa-selftest-', dir='/tmp')
    repo = os.path.join(scratch, 'repo')
    evid = os.path.join(scratch, 'evidence')
    results = []
    try:
        for c in cases:
            if os.path.exists(repo):
                shutil.rmtree(repo)
            sh(['rsync', '-a', '--exclude', 'target', '--exclude', '.git', '/repo/', repo + '/'])
            sh(['git', 'init', '-q'], cwd=repo)
            ok_apply = True
            if c.get('patch'):
                r0 = sh(['git', 'apply', c['patch']], cwd=repo)
                if r0.returncode != 0:
                    print('!! %s: patch does not apply: %s' % (c['name'], r0.stdout[-300:]))
                    ok_apply = False
            for (f, old, new) in c['edits']:
                p = os.path.join(repo, f)
                s = open(p).read()
                if s.count(old) != 1:
                    print('!! %s: edit anchor occurs %d times in %s' % (c['name'], s.count(old), f))
                    ok_apply = False
                    break
                open(p, 'w').write(s.replace(old, new))
            if not ok_apply:
                results.append((c['name'], 'EDIT-FAILED', ''))
                continue
            env = dict(os.environ, OXA_REPO=repo, OXA_EVIDENCE_DIR=evid, CARGO_NET_OFFLINE='true')
            fired = set()
            compile_fail = False
            out_all = ''
            for prop in c['props']:
                r = sh([os.path.join(VERIF, 'check'), prop], env=env, cwd=VERIF)
                out_all += r.stdout
                if 'cargo check under mirfacts failed' in r.stdout:
                    compile_fail = True
                    break
                for m in re.finditer(r'^  (C\d\d\.[\w-]+): ', r.stdout, re.M):
                    fired.add(m.group(1))
                for m in re.finditer(r'^KNOWN-FINDING: property=\S+ (C\d\d\.[\w-]+)', r.stdout, re.M):
                    pass
            if compile_fail:
                results.append((c['name'], 'DOES-NOT-COMPILE', out_all[-600:]))
                continue
            exp = set(c['expect'])
            if exp:
                verdict = 'ok' if exp <= fired else 'MISSED'
            else:
                verdict = 'ok' if not fired else 'FALSE-ALARM'
            results.append((c['name'], verdict, 'fired=%s expected=%s' % (sorted(fired), sorted(exp))))
            print('%-44s %-12s %s' % results[-1])
            sys.stdout.flush()
    finally:
        shutil.rmtree(scratch, ignore_errors=True)
    bad = [r for r in results if r[1] != 'ok']
    print('\n%d cases, %d not ok' % (len(results), len(bad)))
    for r in bad:
        print('  ', r[0], r[1], r[2])
    return 1 if bad else 0


if __name__ == '__main__':
    sys.exit(main())
